(* C01 model: sequence files round-trip (FASTA, Stockholm, SJSON, GFF3 + ##FASTA).
   Executable Gallina model of the sugar code as it is in /repo now; no proofs here.
   Modelled: BioSeq construction (seq.py:213-235), FASTA reader/writer (fasta.py:18-94), Stockholm reader/writer restricted
   to sequence lines (stockholm.py:94-203), SJSON encoder/decoder at tree level (sjson.py:26-85), GFF sequence section
   (gff.py:105-113,168-174), dispatch of write()/read() (main.py:292-331, 397-414), text layer as lines. *)
From Coq Require Import List ZArith NArith Bool.
From Coq.Strings Require Import Byte.
Import ListNotations.
From SV Require Import Text C01_Lines G_codes G_c01_io.
Local Open Scope nat_scope.

(* ---------------------------------------------------------------- results *)
Inductive res (A : Type) : Type :=
| Ok (a : A)
| Err (e : str).
Arguments Ok {A} a.
Arguments Err {A} e.
Definition bind {A B} (r : res A) (f : A -> res B) : res B :=
  match r with Ok a => f a | Err e => Err e end.

Definition E_Value : str := bs "ValueError"%bs.
Definition E_Attribute : str := bs "AttributeError"%bs.
Definition E_Type : str := bs "TypeError"%bs.
Definition E_Key : str := bs "KeyError"%bs.
Definition E_Runtime : str := bs "RuntimeError"%bs.
Definition E_Assertion : str := bs "AssertionError"%bs.

(* ---------------------------------------------------------------- formats *)
Inductive fmt := Fasta | Stockholm | Sjson | Gff.
Definition fmt_of_N (n : N) : fmt :=
  match n with 0%N => Fasta | 1%N => Stockholm | 2%N => Sjson | _ => Gff end.
Definition fmt_name (f : fmt) : str :=
  match f with
  | Fasta => bs "fasta"%bs | Stockholm => bs "stockholm"%bs | Sjson => bs "sjson"%bs | Gff => bs "gff"%bs
  end.

(* ---------------------------------------------------------------- BioSeq *)
(* the part of a BioSeq the sequence formats can see: data, meta.id, type, meta._fasta.header, meta._fmt *)
Record bseq := mk_bseq {
  b_data : str;
  b_id : option str;        (* None = Python None *)
  b_nt : bool;              (* type == 'nt' *)
  b_header : option str;    (* meta._fasta.header when present *)
  b_fmt : option str        (* meta._fmt when present *)
}.

Definition opt_eqb_str (o : option str) (x : str) : bool := match o with Some y => str_eqb y x | None => false end.

Fixpoint has_key {V} (k : byte) (t : list (byte * V)) : bool :=
  match t with
  | [] => false
  | (a, _) :: r => byte_eqb a k || has_key k r
  end.
(* seq.py:228-230: codes = set(CODES) | {'U'}; type = 'nt' if all(nb in codes for nb in self.data) else 'aa' *)
Definition is_code (c : byte) : bool := has_key c CODES || byte_eqb c "U"%byte.
Definition infer_nt (data : str) : bool := forallb is_code data.

(* BioSeq(data, id=id): seq.py:213-235 (str(data).upper(); meta.id = id; type inference) *)
Definition bioseq (data : str) (id : option str) : bseq :=
  let d := upper data in
  mk_bseq d id (infer_nt d) None None.
(* BioSeq(data=d, meta=Meta(id=.., _fmt=..), type=t): as called by the SJSON object hook *)
Definition bioseq_typed (data : str) (id : option str) (nt : bool) (f : option str) : bseq :=
  mk_bseq (upper data) id nt None f.

Definition set_fmt (f : fmt) (s : bseq) : bseq :=
  mk_bseq (b_data s) (b_id s) (b_nt s) (b_header s) (Some (fmt_name f)).
Definition set_header (h : str) (s : bseq) : bseq :=
  mk_bseq (b_data s) (b_id s) (b_nt s) (Some h) (b_fmt s).

(* a sequence as the test driver builds it: BioSeq(data, id=id); optionally seq.meta._fasta = {'header': h} *)
Definition input_seq : Type := (option str * str * option str)%type.
Definition build_seq (x : input_seq) : bseq :=
  match x with
  | (id, data, Some h) => set_header h (bioseq data id)
  | (id, data, None) => bioseq data id
  end.
Definition build (xs : list input_seq) : list bseq := map build_seq xs.

(* ---------------------------------------------------------------- FASTA id extraction, fasta.py:26-44 *)
(* CHS = [^,|;\s] *)
Definition chs (c : byte) : bool :=
  negb (is_ws c || byte_eqb c ","%byte || byte_eqb c "|"%byte || byte_eqb c ";"%byte).
Definition chs_run (s : str) : str := takewhile chs s.

(* at this position: tag, one separator character, then a non-empty run of CHS characters (the group) *)
Definition try_tag (seps : list byte) (w : str) (tag : str) : option str :=
  match strip_prefix tag w with
  | Some (c :: r) => if mem c seps then match chs_run r with [] => None | g => Some g end else None
  | _ => None
  end.
Fixpoint first_some {A B} (f : A -> option B) (l : list A) : option B :=
  match l with
  | [] => None
  | x :: r => match f x with Some y => Some y | None => first_some f r end
  end.
(* "[^\s]*TAG[SEP](CHS+)" matched at the start of w by a backtracking matcher: the greedy prefix is tried longest first,
   so the match found is the LAST position of w where tag+separator+CHS occurs; w is the whitespace-free prefix *)
Fixpoint last_match (tags : list str) (seps : list byte) (w : str) : option str :=
  match w with
  | [] => None
  | _ :: r =>
      match last_match tags seps r with
      | Some g => Some g
      | None => first_some (try_tag seps w) tags
      end
  end.
Definition TAGS1 : list str := [bs "gb"%bs].
Definition SEPS1 : list byte := [":"%byte; "|"%byte].
Definition TAGS2 : list str := [bs "emb"%bs; bs "dbj"%bs; bs "sp"%bs; bs "tr"%bs; bs "ref"%bs; bs "lcl"%bs].
Definition SEPS2 : list byte := ["|"%byte].
(* the pattern this matcher was written for, [^\s]*gb[:|]([^,|;\s]+)|[^\s]*(?:emb|dbj|sp|tr|ref|lcl)[|]([^,|;\s]+)|([^,|;\s]+),
   in the structural form tools/gens/c01.py:canon_regex derives from CPython's parse tree (so that equivalent spellings such as
   \S for [^\s], \| for [|] or reordered tags are the same pattern); tied to /repo by the theorem C01_idpattern_pinned *)
Definition IDPATTERN_PINNED : str :=
  (bs "('alt', (('seq', (('rep', 'greedy', 0, 'inf', ('space', False)), ('lit', 'gb'), ('set', False, (('c', ':'), ('c', '|'))), ('group', 1, ('rep', 'greedy', 1, 'inf', ('set', True, (('c', ','), ('c', ';'), ('c', '|'), ('cat', 'CATEGORY_SPACE'))))))), ('seq', (('rep', 'greedy', 0, 'inf', ('space', False)), ('alt', (('lit', 'dbj'), ('lit', 'emb'), ('lit', 'lcl'), ('lit', 'ref'), ('lit', 'sp'), ('lit', 'tr'))), ('lit', '|'), ('group', 2, ('rep', 'greedy', 1, 'inf', ('set', True, (('c', ','), ('c', ';'), ('c', '|'), ('cat', 'CATEGORY_SPACE'))))))), ('group', 3, ('rep', 'greedy', 1, 'inf', ('set', True, (('c', ','), ('c', ';'), ('c', '|'), ('cat', 'CATEGORY_SPACE')))))))"%bs).

Definition match_idpattern (h : str) : option str :=
  let w := takewhile non_ws h in
  match last_match TAGS1 SEPS1 w with
  | Some g => Some g
  | None =>
      match last_match TAGS2 SEPS2 w with
      | Some g => Some g
      | None => match chs_run h with [] => None | g => Some g end
      end
  end.
(* _id_from_header, fasta.py:36-44 *)
Definition id_from_header (h : str) : option str :=
  match h with [] => None | _ => match_idpattern h end.

(* ---------------------------------------------------------------- FASTA reader, fasta.py:18-24, 47-80 *)
Definition GT : byte := ">"%byte.
Definition SEMI : byte := ";"%byte.
(* parser state: None before the first header, else (id, header, data joined so far) *)
Definition fstate : Type := option (option str * str * str).
(* _create_bioseq, fasta.py:18-24 *)
Definition create_bioseq (st : option str * str * str) : bseq :=
  match st with (id, h, d) => set_header h (bioseq d id) end.
Definition flush (st : fstate) : list bseq :=
  match st with Some r => [create_bioseq r] | None => [] end.
(* iter_fasta over the lines of the file (line terminators already removed; every branch strips them anyway) *)
Fixpoint iter_fasta (st : fstate) (ls : list str) : res (list bseq) :=
  match ls with
  | [] => Ok (flush st)
  | l :: rest =>
      if head_is GT l then
        let h := strip (lstrip_ch GT l) in
        bind (iter_fasta (Some (id_from_header h, h, [])) rest) (fun r => Ok (flush st ++ r))
      else if head_is SEMI l then iter_fasta st rest
      else
        match st with
        | Some (i, h, d) => iter_fasta (Some (i, h, d ++ strip l)) rest
        | None =>                            (* data is None: fasta.py:78-81 *)
            match strip l with
            | [] => iter_fasta None rest     (* blank line before the first header *)
            | _ => Err E_Value               (* 'FASTA file does not start with a header line' *)
            end
        end
  end.
Definition read_fasta_lines (ls : list str) : res (list bseq) := iter_fasta None ls.

(* ---------------------------------------------------------------- FASTA writer, fasta.py:83-94 *)
Definition id_or_empty (s : bseq) : str := match b_id s with Some i => i | None => [] end.
Definition SP : byte := " "%byte.
(* (' ' + header.removeprefix(id_).lstrip()).rstrip() *)
Definition header_suffix (id_ : str) (s : bseq) : str :=
  match b_header s with
  | Some h => rstrip (SP :: lstrip (removeprefix id_ h))
  | None => []
  end.
Definition fasta_header_line (s : bseq) : str :=
  let id_ := id_or_empty s in GT :: id_ ++ header_suffix id_ s.
(* the two lines of f'>{id_}{header}\n{seq.data}\n' *)
Definition append_fasta_lines (s : bseq) : list str := [fasta_header_line s; b_data s].
Definition append_fasta (s : bseq) : str := unlines (append_fasta_lines s).
Definition write_fasta_lines (b : list bseq) : list str := concat (map append_fasta_lines b).

(* ---------------------------------------------------------------- Stockholm, stockholm.py:94-203 (sequence lines) *)
Fixpoint ntok (prev_ws : bool) (s : str) : nat :=
  match s with
  | [] => 0
  | c :: r => if is_ws c then ntok true r else (if prev_ws then 1 else 0) + ntok false r
  end.
(* number of fields of str.split() *)
Definition ntokens (s : str) : nat := ntok true s.
(* line.split(maxsplit=1) on a stripped line containing whitespace *)
Definition split1 (s : str) : str * str := (takewhile non_ws s, lstrip (dropwhile non_ws s)).
(* n-th whitespace separated field (0-based), for the keys of #=GF/#=GC/#=GS/#=GR lines *)
Fixpoint field (n : nat) (s : str) : str :=
  match n with
  | O => takewhile non_ws (lstrip s)
  | S k => field k (dropwhile non_ws (lstrip s))
  end.

(* insertion-ordered dict: seqs[key] = seqs.get(key, '') + val *)
Fixpoint dict_append (key val : str) (d : list (str * str)) : list (str * str) :=
  match d with
  | [] => [(key, val)]
  | (k, v) :: r => if str_eqb k key then (k, v ++ val) :: r else (k, v) :: dict_append key val r
  end.

Definition STK_HEAD : str := bs "# STOCKHOLM"%bs.
Definition HASH : byte := "#"%byte.
(* one iteration of the loop of read_stockholm; the boolean says break *)
Definition stk_line (l0 : str) (d : list (str * str)) : res (list (str * str) * bool) :=
  let l := strip l0 in
  match l with
  | [] => Ok (d, false)
  | _ =>
    if startswith STK_HEAD l then Ok (d, false)
    else if startswith (bs "#=GF"%bs) l || startswith (bs "#=GC"%bs) l then
      if Nat.leb 3 (ntokens l) then Ok (d, false) else Err E_Value       (* tuple unpacking *)
    else if startswith (bs "#=GS"%bs) l || startswith (bs "#=GR"%bs) l then
      if Nat.leb 4 (ntokens l) then Ok (d, false) else Err E_Value
    else if head_is HASH l then Ok (d, false)
    else if startswith (bs "//"%bs) l then Ok (d, true)
    else if mem SP l then let (k, v) := split1 l in Ok (dict_append k v d, false)
    else Err E_Value
  end.
Fixpoint stk_loop (ls : list str) (d : list (str * str)) : res (list (str * str)) :=
  match ls with
  | [] => Ok d
  | l :: rest =>
      bind (stk_line l d) (fun r => let (d', brk) := r in if brk then Ok d' else stk_loop rest d')
  end.
Definition read_stockholm_lines (ls : list str) : res (list bseq) :=
  bind (stk_loop ls []) (fun d => Ok (map (fun kv => bioseq (snd kv) (Some (fst kv))) d)).

(* f'{seq.id} {seq}' *)
Definition py_str_opt (o : option str) : str := match o with Some s => s | None => bs "None"%bs end.
Definition stk_seq_line (s : bseq) : str := py_str_opt (b_id s) ++ SP :: b_data s.
(* '\n'.join(['# STOCKHOLM 1.0'] + seq lines + ['//\n']): every line ends with a newline *)
Definition write_stockholm_lines (b : list bseq) : list str :=
  bs "# STOCKHOLM 1.0"%bs :: map stk_seq_line b ++ [bs "//"%bs].

(* ---------------------------------------------------------------- GFF: feature lines (minimal) and sequence section *)
(* The content of features is property C02; here only what the SEQUENCE round trip needs: which lines the feature reader
   accepts (gff.py:52-84: 9 tab separated columns, int(start)-1 < int(stop), a valid strand, score/phase '.' or a number,
   attributes '.' or key=value pieces; every failure is a ValueError) and the line the writer emits for a plain
   single-location feature (gff.py:120-165). *)
Definition TAB : byte := x09.
Definition PCT : byte := "%"%byte.
Definition DOT : str := ["."%byte].
Definition is_alnum (c : byte) : bool :=
  let n := Byte.to_N c in
  ((N.leb 48 n && N.leb n 57) || (N.leb 65 n && N.leb n 90) || (N.leb 97 n && N.leb n 122))%N.
(* urllib.parse.quote(s) (safe='/') on ASCII text *)
Definition unreserved (c : byte) : bool := is_alnum c || mem c (bs "_.-~/"%bs).
Definition hexU (n : N) : byte :=
  match n with
  | 0 => "0" | 1 => "1" | 2 => "2" | 3 => "3" | 4 => "4" | 5 => "5" | 6 => "6" | 7 => "7"
  | 8 => "8" | 9 => "9" | 10 => "A" | 11 => "B" | 12 => "C" | 13 => "D" | 14 => "E" | _ => "F"
  end%N%byte.
Definition quote1 (c : byte) : str :=
  if unreserved c then [c] else let n := Byte.to_N c in [PCT; hexU (N.div n 16); hexU (N.modulo n 16)].
Definition quote (s : str) : str := flat_map quote1 s.

(* a plain feature: Feature(type, [Location(start, stop, strand)]) with ft.seqid = seqid *)
Record gft := mk_gft { g_seqid : str; g_type : str; g_start : nat; g_stop : nat; g_strand : byte }.
Definition gff_ft_cols (ft : gft) : list str :=
  [quote (g_seqid ft); DOT; g_type ft; dec_of_nat (S (g_start ft)); dec_of_nat (g_stop ft); DOT; [g_strand ft]; DOT; DOT].
(* f'{seqid}\t{source}\t{type_}\t{loc.start+1}\t{loc.stop}\t{nscore}\t{loc.strand}\t{nphase}\t{attrstr}' *)
Definition gff_ft_line (ft : gft) : str := join [TAB] (gff_ft_cols ft).

(* int(unquote(col)): columns containing '%' are not modelled (rejected) *)
Definition py_int (s : str) : option Z := if mem PCT s then None else Z_of_dec (strip s).
Definition is_some {A} (o : option A) : bool := match o with Some _ => true | None => false end.
Definition STRANDS : str := bs "+-.?"%bs.
Definition strand_ok (s : str) : bool := match s with [c] => mem c STRANDS | _ => false end.
Definition num_or_dot (s : str) : bool := str_eqb s DOT || is_some (py_int s).
Definition attrs_ok (a : str) : bool :=
  str_eqb a DOT || forallb (fun kv => mem "="%byte (strip kv)) (split_on ";"%byte a).
(* does read_fts_gff accept this (non-comment, non-blank) line without raising? *)
Definition gff_ft_ok (l : str) : bool :=
  match split_on TAB (strip l) with
  | [_; _; _; start; stop; score; strand; phase; attrs] =>
      match py_int start, py_int stop with
      | Some a, Some b => Z.ltb (a - 1) b && strand_ok strand && num_or_dot score && num_or_dot phase && attrs_ok attrs
      | _, _ => false
      end
  | _ => false
  end.

Definition GFF_FASTA : str := bs "##FASTA"%bs.
Definition is_blank (l : str) : bool := match strip l with [] => true | _ => false end.
(* reader options of read_gff / read_fts_gff (gff.py:38-66): filt_fast, filt, default_ftype (comments=[] only collects) *)
Record gopts := mk_gopts { o_filt_fast : option str; o_filt : list str; o_default : option str }.
Definition no_opts : gopts := mk_gopts None [] None.
(* filt_fast is not None and filt_fast.lower() not in line.lower() *)
Definition filt_fast_skips (o : gopts) (l : str) : bool :=
  match o_filt_fast o with Some ff => negb (is_substring (lower ff) (lower l)) | None => false end.
(* a feature line under the options: the 9 columns are unpacked first, then 'if filt and type_ not in filt: continue'
   comes BEFORE the coordinates are parsed (gff.py:61-66); a type column containing '%' is not modelled with filt *)
Definition gff_ft_ok_opt (o : gopts) (l : str) : bool :=
  match split_on TAB (strip l) with
  | [_; _; ty; start; stop; score; strand; phase; attrs] =>
      let ty' := if str_eqb ty DOT then o_default o else Some ty in
      let filtered := match o_filt o with
                      | [] => false
                      | fl => negb (mem PCT ty)
                              && negb (match ty' with Some t => existsb (str_eqb t) fl | None => false end)
                      end in
      if filtered then true
      else match py_int start, py_int stop with
           | Some a, Some b => Z.ltb (a - 1) b && strand_ok strand && num_or_dot score && num_or_dot phase && attrs_ok attrs
           | _, _ => false
           end
  | _ => false
  end.
(* the ID attribute of a feature line (the last 'ID=' piece wins, as in a dict); raw text, not unquoted *)
Fixpoint attr_id_pieces (ps : list str) (acc : option str) : option str :=
  match ps with
  | [] => acc
  | kv :: r =>
      let kv' := strip kv in
      let k := strip (takewhile (fun c => negb (byte_eqb c "="%byte)) kv') in
      let v := strip (match dropwhile (fun c => negb (byte_eqb c "="%byte)) kv' with _ :: x => x | [] => [] end) in
      attr_id_pieces r (if str_eqb k (bs "ID"%bs) then Some v else acc)
  end.
Definition attr_id (attrs : str) : option str :=
  if str_eqb attrs DOT then None else attr_id_pieces (split_on ";"%byte attrs) None.
(* id_ = (attrs['ID'], type_, seqid) if 'ID' in attrs else None, and the strand column (gff.py:80-84) *)
Definition ft_key : Type := (str * option str * str)%type.
Definition gff_ft_key (o : gopts) (l : str) : option ft_key * str :=
  match split_on TAB (strip l) with
  | [seqid; _; ty; _; _; _; strand; _; attrs] =>
      (match attr_id attrs with
       | Some v => Some (v, (if str_eqb ty DOT then o_default o else Some ty), seqid)
       | None => None
       end, strand)
  | _ => (None, [])
  end.
Definition ft_key_eqb (a b : ft_key) : bool :=
  match a, b with
  | (v1, t1, s1), (v2, t2, s2) =>
      str_eqb v1 v2 && str_eqb s1 s2
      && match t1, t2 with Some x, Some y => str_eqb x y | None, None => true | _, _ => false end
  end.
(* is this feature line dropped by 'if filt and type_ not in filt: continue' ? *)
Definition gff_filtered (o : gopts) (l : str) : bool :=
  match split_on TAB (strip l) with
  | [_; _; ty; _; _; _; _; _; _] =>
      let ty' := if str_eqb ty DOT then o_default o else Some ty in
      match o_filt o with
      | [] => false
      | fl => negb (mem PCT ty) && negb (match ty' with Some t => existsb (str_eqb t) fl | None => false end)
      end
  | _ => false
  end.
(* read_fts_gff consumes the lines up to and including the first '##FASTA' line (gff.py:52-98). [last] is lastid together
   with the strand of the feature it belongs to: consecutive lines with the same (ID, type, seqid) are merged into one
   feature, and LocationTuple rejects mixed strands with a ValueError (fts.py:181-184) *)
Fixpoint gff_skip_opt (o : gopts) (last : option (ft_key * str)) (ls : list str) : res (list str) :=
  match ls with
  | [] => Ok []
  | l :: rest =>
      if startswith GFF_FASTA l then Ok rest
      else if filt_fast_skips o l then gff_skip_opt o last rest
      else if head_is HASH l || is_blank l then gff_skip_opt o last rest
      else if gff_ft_ok_opt o l then
        if gff_filtered o l then gff_skip_opt o last rest
        else
          match gff_ft_key o l with
          | (Some k, st) =>
              match last with
              | Some (k0, st0) =>
                  if ft_key_eqb k k0 then (if str_eqb st st0 then gff_skip_opt o last rest else Err E_Value)
                  else gff_skip_opt o (Some (k, st)) rest
              | None => gff_skip_opt o (Some (k, st)) rest
              end
          | (None, _) => gff_skip_opt o None rest
          end
      else Err E_Value
  end.
Definition gff_skip (ls : list str) : res (list str) := gff_skip_opt no_opts None ls.
Definition read_gff_lines_opt (o : gopts) (ls : list str) : res (list bseq) :=
  bind (gff_skip_opt o None ls) read_fasta_lines.
Definition read_gff_lines (ls : list str) : res (list bseq) :=
  bind (gff_skip ls) read_fasta_lines.
(* write_fts_gff of the feature lines, '##FASTA', then the nested write(seqs, f, fmt='fasta') *)
Definition write_gff_lines_fts (fl : list str) (b : list bseq) : list str :=
  bs "##gff-version 3"%bs :: fl ++ GFF_FASTA :: write_fasta_lines b.
Definition write_gff_lines (b : list bseq) : list str := write_gff_lines_fts [] b.
(* BioBasket.fts: the features of each sequence in basket order; the setter attaches a feature to the sequence whose id
   equals its seqid (seq.py:733-752), features of unknown seqids are dropped with a warning *)
Definition basket_fts (fts : list gft) (b : list bseq) : list gft :=
  flat_map (fun s => filter (fun f => opt_eqb_str (b_id s) (g_seqid f)) fts) b.
Definition basket_ft_lines (fts : list gft) (b : list bseq) : list str := map gff_ft_line (basket_fts fts b).

(* ---------------------------------------------------------------- SJSON at tree level, sjson.py:26-85 *)
Inductive tree :=
| TNull
| TStr (s : str)
| TList (l : list tree)
| TDict (l : list (str * tree)).

(* sjson.py:33-34: kept keys of o.__dict__:  not k.startswith("_") or k in '_fmtcomment'  (a substring test) *)
Definition FMTCOMMENT : str := bs "_fmtcomment"%bs.
Definition keep_key (k : str) : bool := negb (head_is "_"%byte k) || is_substring k FMTCOMMENT.
Definition keep_items (l : list (str * tree)) : list (str * tree) := filter (fun kv => keep_key (fst kv)) l.
Definition t_opt (o : option str) : tree := match o with Some s => TStr s | None => TNull end.
Definition CLS : str := bs "_cls"%bs.
(* items of seq.meta.__dict__ in insertion order: id, _fasta, _fmt *)
Definition meta_items (s : bseq) : list (str * tree) :=
  [(bs "id"%bs, t_opt (b_id s))]
  ++ (match b_header s with
      | Some h => [(bs "_fasta"%bs, TDict [(bs "header"%bs, TStr h); (CLS, TStr (bs "Attr"%bs))])]
      | None => [] end)
  ++ (match b_fmt s with Some f => [(bs "_fmt"%bs, TStr f)] | None => [] end).
Definition enc_meta (items : list (str * tree)) : tree :=
  TDict (keep_items items ++ [(CLS, TStr (bs "Meta"%bs))]).
Definition type_name (nt : bool) : str := if nt then bs "nt"%bs else bs "aa"%bs.
Definition enc_seq (s : bseq) : tree :=
  TDict (keep_items [(bs "data"%bs, TStr (b_data s)); (bs "meta"%bs, enc_meta (meta_items s));
                     (bs "type"%bs, TStr (type_name (b_nt s)))]
         ++ [(CLS, TStr (bs "BioSeq"%bs))]).
(* write_sjson: the basket's __dict__ is {_fmtcomment, data, meta} *)
Definition enc_basket (b : list bseq) : tree :=
  TDict (keep_items [(FMTCOMMENT, TStr SJSON_COMMENT); (bs "data"%bs, TList (map enc_seq b)); (bs "meta"%bs, enc_meta [])]
         ++ [(CLS, TStr (bs "BioBasket"%bs))]).

Fixpoint lookup (k : str) (l : list (str * tree)) : option tree :=
  match l with
  | [] => None
  | (a, v) :: r => if str_eqb a k then Some v else lookup k r
  end.
Definition known_keys (ks : list str) (l : list (str * tree)) : bool :=
  forallb (fun kv => existsb (str_eqb (fst kv)) ks) l.
(* _json_hook on a Meta object as written for a sequence: keys id, _fmt *)
Definition dec_meta (t : tree) : res (option str * option str) :=
  match t with
  | TDict l =>
      match lookup CLS l with
      | Some (TStr c) =>
          if str_eqb c (bs "Meta"%bs) && known_keys [bs "id"%bs; bs "_fmt"%bs; CLS] l then
            let id := match lookup (bs "id"%bs) l with Some (TStr i) => Some i | _ => None end in
            let f := match lookup (bs "_fmt"%bs) l with Some (TStr i) => Some i | _ => None end in
            Ok (id, f)
          else Err E_Type
      | _ => Err E_Type
      end
  | _ => Err E_Type
  end.
(* BioSeq( **d) with d = {data, meta, type} *)
Definition dec_seq (t : tree) : res bseq :=
  match t with
  | TDict l =>
      match lookup CLS l, lookup (bs "data"%bs) l, lookup (bs "meta"%bs) l, lookup (bs "type"%bs) l with
      | Some (TStr c), Some (TStr d), Some m, Some (TStr ty) =>
          if str_eqb c (bs "BioSeq"%bs) && known_keys [bs "data"%bs; bs "meta"%bs; bs "type"%bs; CLS] l then
            bind (dec_meta m) (fun r =>
              if str_eqb ty (bs "nt"%bs) then Ok (bioseq_typed d (fst r) true (snd r))
              else if str_eqb ty (bs "aa"%bs) then Ok (bioseq_typed d (fst r) false (snd r))
              else Err E_Assertion)
          else Err E_Type
      | _, _, _, _ => Err E_Type
      end
  | _ => Err E_Type
  end.
Fixpoint mapres {A B} (f : A -> res B) (l : list A) : res (list B) :=
  match l with
  | [] => Ok []
  | x :: r => bind (f x) (fun y => bind (mapres f r) (fun ys => Ok (y :: ys)))
  end.
(* BioBasket( **d) with d = {data, meta}; '_fmtcomment' is popped by the hook *)
Definition dec_basket (t : tree) : res (list bseq) :=
  match t with
  | TDict l =>
      match lookup CLS l, lookup (bs "data"%bs) l with
      | Some (TStr c), Some (TList seqs) =>
          if str_eqb c (bs "BioBasket"%bs) && known_keys [FMTCOMMENT; bs "data"%bs; bs "meta"%bs; CLS] l
          then mapres dec_seq seqs else Err E_Type
      | _, _ => Err E_Type
      end
  | _ => Err E_Type
  end.

(* ---------------------------------------------------------------- dispatch, main.py:292-331, 397-414 *)
Definition has_append (f : fmt) : bool :=
  match f with Fasta => HAS_append_fasta | Stockholm => HAS_append_stockholm | Sjson => HAS_append_sjson | Gff => HAS_append_gff end.
Definition has_write (f : fmt) : bool :=
  match f with Fasta => HAS_write_fasta | Stockholm => HAS_write_stockholm | Sjson => HAS_write_sjson | Gff => HAS_write_gff end.

(* what a written file is: text for the line formats, a JSON tree for SJSON (json text layer trusted) *)
Inductive content :=
| CText (t : str)
| CTree (t : list tree).     (* concatenated JSON documents (more than one only after mode 'a') *)

Definition write_fmt (f : fmt) (b : list bseq) : content :=
  match f with
  | Fasta => CText []                                   (* no write_fasta in the plugin *)
  | Stockholm => CText (unlines (write_stockholm_lines b))
  | Sjson => CTree [enc_basket b]
  | Gff => CText (unlines (write_gff_lines b))
  end.
Definition append_each (f : fmt) (b : list bseq) : content :=
  match f with
  | Fasta => CText (concat (map append_fasta b))
  | _ => CText []
  end.
(* write(): append_<fmt> per sequence when 'a' in mode, else write_<fmt>, else append_<fmt> when 'w' in mode *)
Definition write_dispatch (f : fmt) (mode_a mode_w : bool) (b : list bseq) : res content :=
  if has_append f && mode_a then Ok (append_each f b)
  else if has_write f then Ok (write_fmt f b)
  else if has_append f && mode_w then Ok (append_each f b)
  else Err E_Runtime.
(* the file after open(fname, mode).write(new): 'w' truncates, 'a' keeps the old content *)
Definition content_app (a b : content) : content :=
  match a, b with
  | CText x, CText y => CText (x ++ y)
  | CTree x, CTree y => CTree (x ++ y)
  | _, _ => a
  end.
Definition write_file (f : fmt) (mode_a : bool) (old : content) (b : list bseq) : res content :=
  bind (write_dispatch f mode_a (negb mode_a) b) (fun c => Ok (if mode_a then content_app old c else c)).
Definition write_w (f : fmt) (b : list bseq) : res content := write_file f false (CText []) b.
(* writing a basket whose sequences carry the plain features fts (only GFF writes them; SJSON with features is C14) *)
Definition write_w_fts (f : fmt) (fts : list gft) (b : list bseq) : res content :=
  match f with
  | Gff => Ok (CText (unlines (write_gff_lines_fts (basket_ft_lines fts b) b)))
  | _ => write_w f b
  end.

(* read(): read_<fmt> | list(iter_<fmt>), then meta._fmt = fmt on every sequence *)
Definition text_lines (t : str) : list str := pylines (univ_nl t).
Definition read_content (f : fmt) (c : content) : res (list bseq) :=
  bind (match f, c with
        | Fasta, CText t => read_fasta_lines (text_lines t)
        | Stockholm, CText t => read_stockholm_lines (text_lines t)
        | Gff, CText t => read_gff_lines (text_lines t)
        | Sjson, CTree [t] => dec_basket t
        | _, _ => Err E_Value             (* json: empty input or extra data *)
        end) (fun b => Ok (map (set_fmt f) b)).

(* read(text, 'gff', filt_fast=.., filt=.., default_ftype=..) *)
Definition read_gff_opt (o : gopts) (c : content) : res (list bseq) :=
  match c with
  | CText t => bind (read_gff_lines_opt o (text_lines t)) (fun b => Ok (map (set_fmt Gff) b))
  | CTree _ => Err E_Value
  end.

(* ---------------------------------------------------------------- equality of the visible object state *)
Definition opt_eqb (a b : option str) : bool :=
  match a, b with Some x, Some y => str_eqb x y | None, None => true | _, _ => false end.
Definition bseq_eqb (a b : bseq) : bool :=
  str_eqb (b_data a) (b_data b) && opt_eqb (b_id a) (b_id b) && Bool.eqb (b_nt a) (b_nt b)
  && opt_eqb (b_header a) (b_header b) && opt_eqb (b_fmt a) (b_fmt b).
Fixpoint list_eqb {A} (e : A -> A -> bool) (a b : list A) : bool :=
  match a, b with
  | [], [] => true
  | x :: a', y :: b' => e x y && list_eqb e a' b'
  | _, _ => false
  end.
Definition basket_eqb := list_eqb bseq_eqb.

(* ---------------------------------------------------------------- domain predicates *)
(* residues: IUPAC nucleotide / amino-acid letters (any letter, either case), gap '-' '.', stop '*' *)
Definition is_residue (c : byte) : bool :=
  let n := Byte.to_N c in
  ((N.leb 65 n && N.leb n 90) || (N.leb 97 n && N.leb n 122))%N
  || byte_eqb c "-"%byte || byte_eqb c "."%byte || byte_eqb c "*"%byte.
Definition residues_ok (d : str) : bool := forallb is_residue d.
(* ids: non-empty, printable ASCII without whitespace *)
Definition id_plain (i : str) : bool := match i with [] => false | _ => forallb is_graph i end.
(* FASTA ids: additionally no , | ; , not starting with '>', and a fixed point of the id extractor *)
Definition id_fasta_ok (i : str) : bool :=
  id_plain i && forallb chs i && negb (head_is GT i)
  && match id_from_header i with Some j => str_eqb i j | None => false end.
(* Stockholm ids: not a comment / terminator *)
Definition id_stk_ok (i : str) : bool :=
  id_plain i && negb (head_is HASH i) && negb (startswith (bs "//"%bs) i).
Definition header_ok (h : option str) : bool :=
  match h with Some x => forallb is_print_or_tab x | None => true end.
Fixpoint distinct (l : list str) : bool :=
  match l with
  | [] => true
  | x :: r => negb (existsb (str_eqb x) r) && distinct r
  end.

(* plain features: printable seqid and type without whitespace, start < stop, a legal strand; the seqid '.' is GFF's
   placeholder for 'no seqid' (a feature on a sequence named '.' is read back without seqid and is not re-attached: C02) *)
Definition wf_gft (ft : gft) : bool :=
  negb (str_eqb (g_seqid ft) DOT) &&
  (id_plain (g_seqid ft) && id_plain (g_type ft) && Nat.ltb (g_start ft) (g_stop ft) && mem (g_strand ft) STRANDS).

Definition wf_input_seq (f : fmt) (x : input_seq) : bool :=
  match x with
  | (Some i, d, h) =>
      residues_ok d && header_ok h &&
      match f with
      | Fasta | Gff => id_fasta_ok i
      | Stockholm => id_stk_ok i && match d with [] => false | _ => true end
      | Sjson => id_plain i
      end
  | (None, _, _) => false
  end.
Definition input_ids (xs : list input_seq) : list str :=
  map (fun x => match x with (Some i, _, _) => i | (None, _, _) => [] end) xs.
(* writer-side domain: wf_C01 fmt basket *)
Definition wf_basket (f : fmt) (xs : list input_seq) : bool :=
  match xs with [] => false | _ => true end
  && forallb (wf_input_seq f) xs
  && match f with Stockholm => distinct (input_ids xs) | _ => true end.

(* reader-side domain: ASCII text that parses, and whose records have legal ids and residues *)
Definition text_char_ok (c : byte) : bool := is_print_or_tab c || byte_eqb c nl || byte_eqb c cr.
Definition rec_ok (f : fmt) (s : bseq) : bool :=
  residues_ok (b_data s)
  && match b_id s with
     | Some i => match f with
                 | Stockholm => id_stk_ok i && match b_data s with [] => false | _ => true end
                 | _ => id_plain i && negb (head_is GT i)
                 end
     | None => false
     end.
(* F20 (open, C18): annotation keys named like mapping methods break Attr; such Stockholm files are excluded *)
Definition RESERVED : list str :=
  [bs "items"%bs; bs "keys"%bs; bs "values"%bs; bs "get"%bs; bs "update"%bs; bs "pop"%bs; bs "copy"%bs;
   bs "setdefault"%bs; bs "clear"%bs; bs "popitem"%bs].
Definition is_reserved (k : str) : bool := existsb (str_eqb k) RESERVED.
Definition stk_annot_ok (l0 : str) : bool :=
  let l := strip l0 in
  if startswith (bs "#=GF"%bs) l || startswith (bs "#=GC"%bs) l then negb (is_reserved (field 1 l))
  else if startswith (bs "#=GS"%bs) l || startswith (bs "#=GR"%bs) l
       then negb (is_reserved (field 2 l)) && negb (is_reserved (field 1 l))
  else true.
Definition wf_text (f : fmt) (t : str) : bool :=
  forallb text_char_ok t
  && match f with
     | Sjson => false
     | Stockholm => forallb stk_annot_ok (text_lines t)
     | _ => true
     end
  && match read_content f (CText t) with
     | Ok b => match b with [] => false | _ => true end && forallb (rec_ok f) b
     | Err _ => false
     end.

(* ---------------------------------------------------------------- object-level domain and normal forms (theorems) *)
(* a BioSeq as BioSeq() builds it, inside the FASTA / Stockholm / SJSON domain *)
Definition wfb_common (s : bseq) : bool :=
  residues_ok (b_data s) && str_eqb (upper (b_data s)) (b_data s) && Bool.eqb (b_nt s) (infer_nt (b_data s)).
Definition wfb_fasta (s : bseq) : bool :=
  match b_id s with Some i => id_fasta_ok i | None => false end && wfb_common s && header_ok (b_header s).
Definition wfb_stk (s : bseq) : bool :=
  match b_id s with Some i => id_stk_ok i | None => false end && wfb_common s
  && match b_data s with [] => false | _ => true end.
Definition ids_of (b : list bseq) : list str := map id_or_empty b.
Definition wf_stk_basket (b : list bseq) : bool := forallb wfb_stk b && distinct (ids_of b).
Definition data_upper (s : bseq) : bool := str_eqb (upper (b_data s)) (b_data s).
(* the object-level domain of a format *)
Definition wfb_basket (f : fmt) (b : list bseq) : bool :=
  match f with
  | Fasta | Gff => forallb wfb_fasta b
  | Stockholm => wf_stk_basket b
  | Sjson => forallb data_upper b
  end.
(* what reading a written sequence gives back *)
Definition norm_fasta (f : fmt) (s : bseq) : bseq :=
  let id_ := id_or_empty s in
  mk_bseq (b_data s) (b_id s) (b_nt s) (Some (id_ ++ header_suffix id_ s)) (Some (fmt_name f)).
Definition norm_plain (f : fmt) (s : bseq) : bseq :=
  mk_bseq (b_data s) (b_id s) (b_nt s) None (Some (fmt_name f)).

(* Stockholm rows 'id residues' of an alignment block, and the row-wise concatenation of two blocks *)
Definition row_ok (kv : str * str) : bool :=
  id_stk_ok (fst kv) && residues_ok (snd kv) && match snd kv with [] => false | _ => true end.
Definition row_line (kv : str * str) : str := fst kv ++ SP :: snd kv.
Fixpoint zip_app (vs ws : list str) : list str :=
  match vs, ws with
  | v :: vs', w :: ws' => (v ++ w) :: zip_app vs' ws'
  | _, _ => []
  end.

(* re-wrapping: the lines of a record body, and what they contribute *)
Definition is_body_line (l : str) : bool := negb (head_is GT l).
Definition payload (body : list str) : str :=
  concat (map strip (filter (fun l => negb (head_is SEMI l)) body)).
Fixpoint chunks (fuel w : nat) (s : str) : list str :=
  match fuel with
  | O => []
  | S k => match s with [] => [] | _ => firstn w s :: chunks k w (skipn w s) end
  end.
(* seq.data wrapped at width w (an empty sequence gives no line) *)
Definition wrap (w : nat) (s : str) : list str := chunks (length s) w s.

(* ---------------------------------------------------------------- harness entry point *)
Definition VStr (s : str) : val := VS s.
Definition show_seq (s : bseq) : val :=
  VL [VOpt VStr (b_id s); VS (b_data s); VS (type_name (b_nt s)); VOpt VStr (b_header s); VOpt VStr (b_fmt s)].
Definition show_basket (b : list bseq) : val := VL (map show_seq b).
Fixpoint show_tree (t : tree) : val :=
  match t with
  | TNull => VNone
  | TStr s => VS s
  | TList l => VL (VS (bs "L"%bs) :: map show_tree l)
  | TDict l => VL (VS (bs "D"%bs) :: map (fun kv => match kv with (k, v) => VL [VS k; show_tree v] end) l)
  end.
Definition show_content (c : content) : val :=
  match c with
  | CText t => VS t
  | CTree l => VL (map show_tree l)
  end.
Definition show_res (r : res val) : val := match r with Ok v => v | Err e => VE e end.

(* write -> read -> write -> read -> write starting from a basket (with plain features fts attached, for GFF) *)
Definition cycle_from (f : fmt) (fts : list gft) (b0 : list bseq) : res val :=
  bind (write_w_fts f fts b0) (fun t1 =>
  bind (read_content f t1) (fun o1 =>
  bind (write_w_fts f fts o1) (fun t2 =>
  bind (read_content f t2) (fun o2 =>
  bind (write_w_fts f fts o2) (fun t3 =>
  Ok (VL [show_content t1; show_basket o1; show_content t2; show_basket o2; show_content t3;
          VB (basket_eqb o1 o2)])))))).
(* read -> write -> read -> write starting from a text *)
Definition cycle_text (f : fmt) (t : str) : res val :=
  bind (read_content f (CText t)) (fun o1 =>
  bind (write_w f o1) (fun t2 =>
  bind (read_content f t2) (fun o2 =>
  bind (write_w f o2) (fun t3 =>
  Ok (VL [show_basket o1; show_content t2; show_basket o2; show_content t3; VB (basket_eqb o1 o2)]))))).
(* mode 'w' with the first half, mode 'a' with the second half, against one write of the concatenation;
   then the appended file is read back *)
Definition append_halves (f : fmt) (b1 b2 : list bseq) : res val :=
  bind (write_w f b1) (fun c1 =>
  bind (write_file f true c1 b2) (fun ca =>
  bind (write_w f (b1 ++ b2)) (fun cc =>
  Ok (VL [show_content ca; show_content cc;
          show_res (bind (read_content f ca) (fun o => Ok (show_basket o)))])))).

Definition input_ft : Type := (str * str * nat * nat * byte)%type.
Definition build_ft (x : input_ft) : gft := match x with (i, t, a, e, st) => mk_gft i t a e st end.
Definition build_fts (l : list input_ft) : list gft := map build_ft l.

Definition wf_C01 (op : N) (f : fmt) (xs ys : list input_seq) (fts : list gft) (t : str) : bool :=
  match op with
  | 0%N | 3%N =>
      wf_basket f xs
      && match fts with
         | [] => true
         | _ => match f with Gff => distinct (input_ids xs) && forallb wf_gft fts | _ => false end
         end
  | 1%N => match f with
            | Fasta => wf_basket Fasta (xs ++ ys)
            | _ => wf_basket f xs && wf_basket f ys      (* mode 'a' without append_<fmt>: write_<fmt> on a handle opened for appending *)
            end
  | _ => wf_text f t
  end.

(* single steps of a history (the model is pure: each step is the model applied to the current value) *)
Definition write_read (f : fmt) (fts : list gft) (b0 : list bseq) : res val :=
  bind (write_w_fts f fts b0) (fun t1 =>
  bind (read_content f t1) (fun o1 => Ok (VL [show_content t1; show_basket o1]))).
Definition read_once (f : fmt) (t : str) : res val :=
  bind (read_content f (CText t)) (fun o1 => Ok (show_basket o1)).

Definition run_C01 (op fmtn : N) (xs ys : list input_seq) (fl : list input_ft) (t : str) : val :=
  let f := fmt_of_N fmtn in
  let fts := build_fts fl in
  VL [VB (wf_C01 op f xs ys fts t);
      show_res (match op with
                | 0%N => cycle_from f fts (build xs)
                | 1%N => append_halves f (build xs) (build ys)
                | 2%N => cycle_text f t
                | 3%N => write_read f fts (build xs)
                | _ => read_once f t
                end)].

(* GFF reader options: mode 0 = write the basket (with features) and read it back under the options;
   mode 1 = read a literal text under the options *)
Definition wf_text_gff_opt (o : gopts) (t : str) : bool :=
  forallb text_char_ok t
  && match read_gff_opt o (CText t) with
     | Ok b => match b with [] => false | _ => true end && forallb (rec_ok Gff) b
     | Err _ => false
     end.
Definition opt_printable (o : gopts) : bool :=
  match o_filt_fast o with Some x => forallb is_print_or_tab x | None => true end.
Definition run_C01_opt (mode : N) (ff : option str) (filt : list str) (dflt : option str)
                       (xs : list input_seq) (fl : list input_ft) (t : str) : val :=
  let o := mk_gopts ff filt dflt in
  let fts := build_fts fl in
  match mode with
  | 0%N => VL [VB (wf_C01 0 Gff xs [] fts [] && opt_printable o);
               show_res (bind (write_w_fts Gff fts (build xs)) (fun t1 =>
                         bind (read_gff_opt o t1) (fun o1 => Ok (VL [show_content t1; show_basket o1]))))]
  | _ => VL [VB (wf_text_gff_opt o t && opt_printable o);
             show_res (bind (read_gff_opt o (CText t)) (fun o1 => Ok (show_basket o1)))]
  end.
