(* C12 model: find_orfs (sugar/core/cane.py:298-361, and _frame_start, cane.py:285-295), _inds2orf (cane.py:267-282) and the part of match()/matchall()
   (cane.py:167-257) that find_orfs uses: default 'start'/'stop' codon alternations with the [-]* gap rewriting,
   leftmost non-overlapping finditer, reading frame = residues before the match (bisect on the gap positions),
   the reverse-complement pass for backward frames (BioSeq.rc is the C05 model). No proofs here.
   Also modelled: the ORF features (type, seqid, strand, rf) of BioSeq.find_orfs / BioBasket.find_orfs (seq.py:563-568, 1058-1063)
   and FeatureList.filter(len_<op>=v) by its meaning; the specification side gives the exact result of every mode.
   Since round 7 (second half of the file): the gap option as a set of characters, custom start/stop alternations of literal words, every rf form. *)
From Coq Require Import List ZArith NArith Bool.
From Coq.Strings Require Import Byte.
Import ListNotations.
From SV Require Import Text C05_Model.
Local Open Scope Z_scope.

Definition is_gap (c : byte) : bool := byte_eqb c "-"%byte.

(* ---- codon locator ------------------------------------------------------------------------------------------- *)
(* cane.py:216-228: 'start' -> 'AUG|ATG', 'stop' -> 'UAG|UAA|UGA|TAG|TAA|TGA'; since 7e33c72 the pattern is tokenised into units (a character class is one unit, any other character is its own unit); for these alternations of letters every unit is one character, '|' is no letter: with gap='-' every letter that is followed
   by a letter gets '[-]*' appended: 'A[-]*U[-]*G|A[-]*T[-]*G'. A word is kept as its letters; [mw] matches it at the
   head of [s], skipping gaps between (not before, not after) its letters, and returns n + number of columns consumed. *)
Definition START_WORDS : list str := [bs "AUG"%bs; bs "ATG"%bs].
Definition STOP_WORDS : list str := [bs "UAG"%bs; bs "UAA"%bs; bs "UGA"%bs; bs "TAG"%bs; bs "TAA"%bs; bs "TGA"%bs].

Fixpoint mw (skip : bool) (w s : str) (n : nat) {struct s} : option nat :=
  match w with
  | [] => Some n
  | c :: w' =>
      match s with
      | [] => None
      | x :: s' =>
          if byte_eqb x c then mw true w' s' (S n)
          else if skip && is_gap x then mw true w s' (S n)
          else None
      end
  end.

(* alternation: first alternative that matches at this position (re semantics; the alternatives are deterministic) *)
Fixpoint match_any (ws : list str) (s : str) : option nat :=
  match ws with
  | [] => None
  | w :: r => match mw false w s 0 with Some n => Some n | None => match_any r s end
  end.

(* re.finditer (cane.py:231,245): leftmost, non-overlapping; [skip] columns still belong to the previous match.
   Returns (m.start(), m.end()) pairs. *)
Fixpoint finditer (ws : list str) (s : str) (pos skip : nat) {struct s} : list (nat * nat) :=
  match s with
  | [] => []
  | _ :: s' =>
      match skip with
      | S k => finditer ws s' (S pos) k
      | O =>
          match match_any ws s with
          | Some len => (pos, (pos + len)%nat) :: finditer ws s' (S pos) (Nat.pred len)
          | None => finditer ws s' (S pos) O
          end
      end
  end.

(* cane.py:225,234: gaps = positions of gap characters (start=0); bisect_left(gaps, i) = number of gap positions < i *)
Definition gaps_before (s : str) (i : nat) : nat := length (filter is_gap (firstn i s)).
Definition frame_of (s : str) (i : nat) : Z := (Z.of_nat i - Z.of_nat (gaps_before s i)) mod 3.

(* forward frames 0,1,2 are searched on the sequence, backward frames -1,-2,-3 on seq.copy().rc() (cane.py:242);
   a backward match with this_rf is reported under -1*this_rf-1 (cane.py:249-250) *)
Definition strand_str (s : str) (frame : Z) : str := if frame >=? 0 then s else rc s.
Definition frame_key (frame : Z) : Z := if frame >=? 0 then frame else - frame - 1.

(* matchall(sub, rf=rf).groupby('rf')[frame]  for a frame that is among the requested ones *)
Definition hits (ws : list str) (s : str) (frame : Z) : list (nat * nat) :=
  let t := strand_str s frame in
  filter (fun m => frame_of t (fst m) =? frame_key frame) (finditer ws t 0 0).

(* ---- ORF pairing ---------------------------------------------------------------------------------------------- *)
Inductive nstart := NSAlways | NSOnce | NSNever.
Record orf := mkorf { o_start : Z; o_stop : Z; o_plus : bool; o_rf : Z }.
Inductive result := ROk (l : list orf) | RAssert | RFuel.

(* _inds2orf, cane.py:267-282; None = the assert i1 < i2 fails *)
Definition inds2orf (i1 i2 rf L : Z) : option orf :=
  let '(a, b, pl) := if rf >=? 0 then (i1, i2, true) else (L - i2, L - i1, false) in
  if a <? b then Some (mkorf a b pl rf) else None.

(* inner while of cane.py:349-354: pop stops until one ends after i1 *)
Fixpoint next_stop (i1 : Z) (stops : list Z) : option (Z * list Z) :=
  match stops with
  | [] => None
  | e :: r => if e >? i1 then Some (e, r) else next_stop i1 r
  end.

Definition is_nil {A} (l : list A) : bool := match l with [] => true | _ => false end.
Definition is_some {A} (o : option A) : bool := match o with Some _ => true | None => false end.
Definition cons_res (keep : bool) (o : orf) (r : result) : result :=
  match r with ROk l => ROk (if keep then o :: l else l) | e => e end.

(* body of the while loop after i1 has been chosen, cane.py:347-360; [rec] is the next iteration *)
Definition loop_body (rec : list Z -> list Z -> option Z -> result) (need_stop : bool) (minlen L frame i1 : Z)
           (starts' stops : list Z) (i2 : option Z) : result :=
  if (match i2 with Some p => i1 <? p | None => false end)
  then rec starts' stops i2                                                 (* continue, cane.py:347-348 *)
  else
    let '(i2', stops') :=
      match next_stop i1 stops with
      | Some (e, r) => (Some e, r)
      | None => ((if need_stop then None else Some L), [])                  (* while-else, cane.py:353-354 *)
      end in
    match i2' with
    | None => ROk []                                                        (* break, cane.py:359-360 *)
    | Some e =>
        match inds2orf i1 e frame L with
        | None => RAssert
        | Some o =>
            cons_res (o_stop o - o_start o >=? minlen) o                    (* len(orf) >= minlen, cane.py:357 *)
              (if e =? L then ROk [] else rec starts' stops' (Some e))      (* break if i2 == len(seq) *)
        end
    end.

(* the while loop of one frame, cane.py:337-360; starts = m.start() of the start codons of the frame,
   stops = m.end() of its stop codons, both still to be popped; i2 as in the code *)
Definition loop_cond (ns : nstart) (starts : list Z) (i2 : option Z) : bool :=
  match ns with
  | NSNever => true
  | NSAlways => negb (is_nil starts)
  | NSOnce => negb (is_nil starts) || is_some i2
  end.
Definition pop_start (starts : list Z) : Z * list Z :=
  match starts with a :: r => (a, r) | [] => (0, []) end.              (* cane.py:344, starts is non-empty there *)
(* fs = _frame_start(data, frame, gap), cane.py:342 *)
Definition choose_i1 (ns : nstart) (fs : Z) (starts : list Z) (i2 : option Z) : Z * list Z :=
  match ns, i2 with
  | NSNever, None => (fs, starts)                                      (* cane.py:342 *)
  | NSNever, Some p => (p, starts)                                     (* cane.py:343 *)
  | NSOnce, Some p => (p, starts)
  | _, _ => pop_start starts
  end.

Fixpoint frame_loop (fuel : nat) (ns : nstart) (need_stop : bool) (minlen L frame fs last : Z)
         (starts stops : list Z) (i2 : option Z) : result :=
  match fuel with
  | O => RFuel
  | S fuel' =>
      if negb (loop_cond ns starts i2) then ROk [] else
      if fst (choose_i1 ns fs starts i2) >=? last then ROk [] else         (* no residues left: break, cane.py:345-346 *)
      loop_body (frame_loop fuel' ns need_stop minlen L frame fs last) need_stop minlen L frame
                (fst (choose_i1 ns fs starts i2)) (snd (choose_i1 ns fs starts i2)) stops i2
  end.

(* data = str(seq) if frame >= 0 else str(seq)[::-1], cane.py:339: the gap pattern of the strand that is read *)
Definition strand_data (s : str) (frame : Z) : str := if frame >=? 0 then s else rev s.
(* _frame_start, cane.py:285-295: index of the k-th residue (k from 0) of data, len(data) if there is none *)
Fixpoint frame_start_from (data : str) (k i : nat) : nat :=
  match data with
  | [] => i
  | c :: r => if is_gap c then frame_start_from r k (S i)
              else match k with O => i | S k' => frame_start_from r k' (S i) end
  end.
Definition frame_start (data : str) (frame : Z) : nat :=
  frame_start_from data (Z.to_nat (if frame >=? 0 then frame else - frame - 1)) 0.
(* last = len(data.rstrip('-')), cane.py:340: one past the last residue; str.rstrip is modelled by its meaning *)
Fixpoint last_res (data : str) : nat :=
  match data with
  | [] => O
  | c :: r => match last_res r with O => if is_gap c then O else 1%nat | S n => S (S n) end
  end.

Definition frame_starts (s : str) (frame : Z) : list Z := map (fun m => Z.of_nat (fst m)) (hits START_WORDS s frame).
Definition frame_stops (s : str) (frame : Z) : list Z := map (fun m => Z.of_nat (snd m)) (hits STOP_WORDS s frame).

Definition frame_orfs (ns : nstart) (need_stop : bool) (minlen : Z) (s : str) (frame : Z) : result :=
  let starts := frame_starts s frame in
  let stops := frame_stops s frame in
  let data := strand_data s frame in
  frame_loop (length starts + length stops + 1) ns need_stop minlen (Z.of_nat (length s)) frame
             (Z.of_nat (frame_start data frame)) (Z.of_nat (last_res data)) starts stops None.

Definition app_res (a b : result) : result :=
  match a, b with
  | ROk x, ROk y => ROk (x ++ y)
  | ROk _, e => e
  | e, _ => e
  end.

(* for frame in rf, cane.py:336 *)
Fixpoint orfs_frames (ns : nstart) (need_stop : bool) (minlen : Z) (s : str) (frames : list Z) : result :=
  match frames with
  | [] => ROk []
  | f :: r => app_res (frame_orfs ns need_stop minlen s f) (orfs_frames ns need_stop minlen s r)
  end.

(* rf normalisation, cane.py:327-334 *)
Inductive rfspec := RFfwd | RFbwd | RFboth | RFint (z : Z) | RFtuple (l : list Z).
Definition frames_of (r : rfspec) : list Z :=
  match r with
  | RFfwd => [0; 1; 2]
  | RFbwd => [-1; -2; -3]
  | RFboth => [0; 1; 2; -1; -2; -3]
  | RFint z => [z]
  | RFtuple l => l
  end.

Definition find_orfs (rf : rfspec) (ns : nstart) (need_stop : bool) (minlen : Z) (s : str) : result :=
  orfs_frames ns need_stop minlen s (frames_of rf).

(* ---- specification side ---------------------------------------------------------------------------------------- *)
(* default mode, one frame: stops e_1 < e_2 < ... (end positions), starts a_1 < a_2 < ...:
   one ORF per stop e_k for which a start a with e_(k-1) <= a < e_k exists, from the first such start *)
Fixpoint spec_default (starts stops : list Z) (prev : Z) : list (Z * Z) :=
  match stops with
  | [] => []
  | e :: r =>
      match find (fun a => (prev <=? a) && (a <? e)) starts with
      | Some a => (a, e) :: spec_default starts r e
      | None => spec_default starts r e
      end
  end.

(* every mode. need_start='always' with either need_stop: as above, and for need_stop=False one more ORF from the first
   start at or after the last stop of the frame to the end of the sequence (L = len(seq)) *)
Fixpoint spec_always (need_stop : bool) (L : Z) (starts stops : list Z) (prev : Z) : list (Z * Z) :=
  match stops with
  | [] => if need_stop then [] else
          match find (fun a => prev <=? a) starts with Some a => [(a, L)] | None => [] end
  | e :: r =>
      match find (fun a => (prev <=? a) && (a <? e)) starts with
      | Some a => (a, e) :: spec_always need_stop L starts r e
      | None => spec_always need_stop L starts r e
      end
  end.

(* need_start='once' (from its first start codon) and 'never' (from the first residue of the frame): a chain from position
   i1 through the consecutive stops after it, every link from the end of one stop to the end of the next, as long as the
   link begins before [last] (the end of the last residue); for need_stop=False a final link to the end of the sequence *)
Fixpoint spec_chain (need_stop : bool) (last L : Z) (i1 : Z) (stops : list Z) : list (Z * Z) :=
  match stops with
  | [] => if need_stop || (last <=? i1) then [] else [(i1, L)]
  | e :: r => if last <=? i1 then []
              else if e <=? i1 then spec_chain need_stop last L i1 r
              else (i1, e) :: spec_chain need_stop last L e r
  end.

Definition spec_mode (ns : nstart) (need_stop : bool) (fs last L : Z) (starts stops : list Z) : list (Z * Z) :=
  match ns with
  | NSAlways => spec_always need_stop L starts stops 0
  | NSOnce => match starts with [] => [] | a :: _ => spec_chain need_stop last L a stops end
  | NSNever => spec_chain need_stop last L fs stops
  end.

(* ---- ORF features, BioSeq.find_orfs / BioBasket.find_orfs, the len_* filters ------------------------------------- *)
(* _inds2orf (cane.py:267-282) builds Feature(ftype, start, stop) with seqid = seq.id, loc.strand, meta.rf *)
Record feat := mkfeat { ft_type : str; ft_seqid : str; ft_orf : orf }.
Inductive fresult := FOk (l : list feat) | FErr (e : str).
Definition tag_orfs (ftype id : str) (r : result) : fresult :=
  match r with
  | ROk l => FOk (map (mkfeat ftype id) l)
  | RAssert => FErr (bs "AssertionError"%bs)
  | RFuel => FErr (bs "OutOfFuel"%bs)
  end.
(* BioSeq.find_orfs, seq.py:563-568; a sequence is (id, text) *)
Definition seq_find_orfs (ftype : str) (rf : rfspec) (ns : nstart) (need_stop : bool) (minlen : Z) (sq : str * str) : fresult :=
  tag_orfs ftype (fst sq) (find_orfs rf ns need_stop minlen (snd sq)).
Definition fapp (a b : fresult) : fresult :=
  match a, b with
  | FOk x, FOk y => FOk (x ++ y)
  | FOk _, e => e
  | e, _ => e
  end.
(* BioBasket.find_orfs, seq.py:1058-1063: reduce(+, [seq.find_orfs(...) for seq in self]); reduce of an empty list
   raises TypeError *)
Fixpoint basket_orfs (ftype : str) (rf : rfspec) (ns : nstart) (need_stop : bool) (minlen : Z) (seqs : list (str * str)) : fresult :=
  match seqs with
  | [] => FOk []
  | sq :: r => fapp (seq_find_orfs ftype rf ns need_stop minlen sq) (basket_orfs ftype rf ns need_stop minlen r)
  end.
Definition basket_find_orfs (ftype : str) (rf : rfspec) (ns : nstart) (need_stop : bool) (minlen : Z) (seqs : list (str * str)) : fresult :=
  if is_nil seqs then FErr (bs "TypeError"%bs) else basket_orfs ftype rf ns need_stop minlen seqs.

(* FeatureList.filter(len_<op>=v) (fts.py:811-835, cane._filter cane.py:67-101 with allowed_funcs['len']):
   keeps the features with op(len(ft), v); len(ft) is the range of its locations (Feature.__len__, fts.py:375) *)
Inductive lenop := OpGe | OpGt | OpLe | OpLt | OpEq | OpNe | OpMin | OpMax.
Definition lenop_test (op : lenop) (n v : Z) : bool :=
  match op with
  | OpGe | OpMin => n >=? v
  | OpGt => n >? v
  | OpLe | OpMax => n <=? v
  | OpLt => n <? v
  | OpEq => n =? v
  | OpNe => negb (n =? v)
  end.
Definition feat_len (ft : feat) : Z := o_stop (ft_orf ft) - o_start (ft_orf ft).
Definition filter_len (op : lenop) (v : Z) (l : list feat) : list feat := filter (fun ft => lenop_test op (feat_len ft) v) l.
Definition fmap_res (g : list feat -> list feat) (r : fresult) : fresult :=
  match r with FOk l => FOk (g l) | e => e end.

(* number of residues (non-gap characters) in the first p columns *)
Definition rb (s : str) (p : nat) : nat := length (filter (fun c => negb (is_gap c)) (firstn p s)).
Definition degap (s : str) : str := filter (fun c => negb (is_gap c)) s.

(* ---- the gap option as a SET of characters, custom start/stop alternations, every rf form ------------------------------ *)
(* find_orfs(seq, rf, start, stop, need_start, need_stop, gap, minlen) (cane.py:301): [gap] is a string used as a set of
   characters: the regex class '[<gap>]*' (cane.py:222), 'nt in gap' (cane.py:230, 245, 291), str.rstrip(gap) (cane.py:340);
   gap=None (no rewriting, no gap positions, 'if gap else len(data)') behaves like the empty set. The functions below are the
   functions above with the set as a parameter; find_orfs_x g START_WORDS STOP_WORDS on a text is proved equal to find_orfs
   on the text with every gap character rewritten to '-' (C12_gapset_transfer). *)
Definition is_gap_g (g : str) (c : byte) : bool := existsb (byte_eqb c) g.

Fixpoint mw_g (g : str) (skip : bool) (w s : str) (n : nat) {struct s} : option nat :=
  match w with
  | [] => Some n
  | c :: w' =>
      match s with
      | [] => None
      | x :: s' =>
          if byte_eqb x c then mw_g g true w' s' (S n)
          else if skip && is_gap_g g x then mw_g g true w s' (S n)
          else None
      end
  end.
Fixpoint match_any_g (g : str) (ws : list str) (s : str) : option nat :=
  match ws with
  | [] => None
  | w :: r => match mw_g g false w s 0 with Some n => Some n | None => match_any_g g r s end
  end.
Fixpoint finditer_g (g : str) (ws : list str) (s : str) (pos skip : nat) {struct s} : list (nat * nat) :=
  match s with
  | [] => []
  | _ :: s' =>
      match skip with
      | S k => finditer_g g ws s' (S pos) k
      | O =>
          match match_any_g g ws s with
          | Some len => (pos, (pos + len)%nat) :: finditer_g g ws s' (S pos) (Nat.pred len)
          | None => finditer_g g ws s' (S pos) O
          end
      end
  end.
Definition gaps_before_g (g : str) (s : str) (i : nat) : nat := length (filter (is_gap_g g) (firstn i s)).
Definition frame_of_g (g : str) (s : str) (i : nat) : Z := (Z.of_nat i - Z.of_nat (gaps_before_g g s i)) mod 3.
Definition hits_g (g : str) (ws : list str) (s : str) (frame : Z) : list (nat * nat) :=
  let t := strand_str s frame in
  filter (fun m => frame_of_g g t (fst m) =? frame_key frame) (finditer_g g ws t 0 0).
Fixpoint frame_start_from_g (g : str) (data : str) (k i : nat) : nat :=
  match data with
  | [] => i
  | c :: r => if is_gap_g g c then frame_start_from_g g r k (S i)
              else match k with O => i | S k' => frame_start_from_g g r k' (S i) end
  end.
Definition frame_start_g (g : str) (data : str) (frame : Z) : nat :=
  frame_start_from_g g data (Z.to_nat (if frame >=? 0 then frame else - frame - 1)) 0.
Fixpoint last_res_g (g : str) (data : str) : nat :=
  match data with
  | [] => O
  | c :: r => match last_res_g g r with O => if is_gap_g g c then O else 1%nat | S n => S (S n) end
  end.
Definition starts_x (g : str) (sw : list str) (s : str) (frame : Z) : list Z := map (fun m => Z.of_nat (fst m)) (hits_g g sw s frame).
Definition stops_x (g : str) (pw : list str) (s : str) (frame : Z) : list Z := map (fun m => Z.of_nat (snd m)) (hits_g g pw s frame).
Definition frame_orfs_x (g : str) (sw pw : list str) (ns : nstart) (need_stop : bool) (minlen : Z) (s : str) (frame : Z) : result :=
  let starts := starts_x g sw s frame in
  let stops := stops_x g pw s frame in
  let data := strand_data s frame in
  frame_loop (length starts + length stops + 1) ns need_stop minlen (Z.of_nat (length s)) frame
             (Z.of_nat (frame_start_g g data frame)) (Z.of_nat (last_res_g g data)) starts stops None.
Fixpoint orfs_frames_x (g : str) (sw pw : list str) (ns : nstart) (need_stop : bool) (minlen : Z) (s : str) (frames : list Z) : result :=
  match frames with
  | [] => ROk []
  | f :: r => app_res (frame_orfs_x g sw pw ns need_stop minlen s f) (orfs_frames_x g sw pw ns need_stop minlen s r)
  end.
Definition find_orfs_x (g : str) (sw pw : list str) (rf : rfspec) (ns : nstart) (need_stop : bool) (minlen : Z) (s : str) : result :=
  orfs_frames_x g sw pw ns need_stop minlen s (frames_of rf).

(* start= / stop= (cane.py:216-221): the names 'start' and 'stop' stand for the default alternations, any other text is the
   regex itself; modelled for alternations of literal words 'W1|W2|...' (custom codon sets) *)
Fixpoint split_bar (t : str) : list str :=
  match t with
  | [] => [[]]
  | c :: r => if byte_eqb c "|"%byte then [] :: split_bar r
              else match split_bar r with w :: ws => (c :: w) :: ws | [] => [[c]] end
  end.
Definition pat_words (t : str) : list str :=
  if str_eqb t (bs "start"%bs) then START_WORDS else if str_eqb t (bs "stop"%bs) then STOP_WORDS else split_bar t.

(* REPEATED frames in an rf tuple: starts / stops are dicts frame -> list of matches built once (cane.py:323-325) and the pairing
   loop POPS from these lists (cane.py:344, 350), so a second pass over the same frame sees what the first pass left.
   frame_loop_st is frame_loop returning also the lists that are left; orfs_frames_st threads them through the frames
   (st holds the leftovers of the frames visited so far; an unvisited frame reads its full lists). *)
Definition res3 := (result * (list Z * list Z))%type.
Definition cons_res3 (keep : bool) (o : orf) (r : res3) : res3 := (cons_res keep o (fst r), snd r).
Definition loop_body_st (rec : list Z -> list Z -> option Z -> res3) (need_stop : bool) (minlen L frame i1 : Z)
           (starts' stops : list Z) (i2 : option Z) : res3 :=
  if (match i2 with Some p => i1 <? p | None => false end)
  then rec starts' stops i2
  else
    let '(i2', stops') :=
      match next_stop i1 stops with
      | Some (e, r) => (Some e, r)
      | None => ((if need_stop then None else Some L), [])
      end in
    match i2' with
    | None => (ROk [], (starts', stops'))
    | Some e =>
        match inds2orf i1 e frame L with
        | None => (RAssert, (starts', stops'))
        | Some o =>
            cons_res3 (o_stop o - o_start o >=? minlen) o
              (if e =? L then (ROk [], (starts', stops')) else rec starts' stops' (Some e))
        end
    end.
Fixpoint frame_loop_st (fuel : nat) (ns : nstart) (need_stop : bool) (minlen L frame fs last : Z)
         (starts stops : list Z) (i2 : option Z) : res3 :=
  match fuel with
  | O => (RFuel, (starts, stops))
  | S fuel' =>
      if negb (loop_cond ns starts i2) then (ROk [], (starts, stops)) else
      if fst (choose_i1 ns fs starts i2) >=? last then (ROk [], (snd (choose_i1 ns fs starts i2), stops)) else
      loop_body_st (frame_loop_st fuel' ns need_stop minlen L frame fs last) need_stop minlen L frame
                   (fst (choose_i1 ns fs starts i2)) (snd (choose_i1 ns fs starts i2)) stops i2
  end.
Fixpoint lookup_st (f : Z) (st : list (Z * (list Z * list Z))) : option (list Z * list Z) :=
  match st with
  | [] => None
  | (k, v) :: r => if k =? f then Some v else lookup_st f r
  end.
Definition frame_pass_st (g : str) (sw pw : list str) (ns : nstart) (need_stop : bool) (minlen : Z) (s : str)
           (st : list (Z * (list Z * list Z))) (f : Z) : res3 :=
  let ls := match lookup_st f st with Some p => p | None => (starts_x g sw s f, stops_x g pw s f) end in
  let data := strand_data s f in
  frame_loop_st (length (fst ls) + length (snd ls) + 1) ns need_stop minlen (Z.of_nat (length s)) f
                (Z.of_nat (frame_start_g g data f)) (Z.of_nat (last_res_g g data)) (fst ls) (snd ls) None.
Fixpoint orfs_frames_st (g : str) (sw pw : list str) (ns : nstart) (need_stop : bool) (minlen : Z) (s : str)
         (st : list (Z * (list Z * list Z))) (frames : list Z) : result :=
  match frames with
  | [] => ROk []
  | f :: r =>
      let p := frame_pass_st g sw pw ns need_stop minlen s st f in
      app_res (fst p) (orfs_frames_st g sw pw ns need_stop minlen s ((f, snd p) :: st) r)
  end.

(* every form of rf: the three names and ints / tuples of ints (rfspec; frames outside -3..2 find no codon, cane.py:236-238,
   and read the strand from their k-th residue); another string fails the assertion of match() (cane.py:205); one numpy
   integer or float (not an int instance) and None are not iterable: TypeError (set(rf) cane.py:236 / for frame in rf) *)
Inductive rfany := RAspec (r : rfspec) | RAnpint (z : Z) | RAfloat | RAnone | RAbadstr.
Inductive xresult := XOk (l : list orf) | XErr (e : str).
Definition xres (r : result) : xresult :=
  match r with ROk l => XOk l | RAssert => XErr (bs "AssertionError"%bs) | RFuel => XErr (bs "OutOfFuel"%bs) end.
Definition gap_set (gap : option str) : str := match gap with Some g => g | None => [] end.
Definition find_orfs_any (gap : option str) (start stop : str) (rf : rfany) (ns : nstart) (need_stop : bool) (minlen : Z) (s : str) : xresult :=
  match rf with
  | RAbadstr => XErr (bs "AssertionError"%bs)
  | RAnpint _ | RAfloat | RAnone => XErr (bs "TypeError"%bs)
  | RAspec r => xres (orfs_frames_st (gap_set gap) (pat_words start) (pat_words stop) ns need_stop minlen s [] (frames_of r))
  end.

(* specification side: is_orf s f a e -- on the strand read in frame f, (a, e) is an open reading frame of the default
   settings: a is the column of an in-frame start codon, e the end column of an in-frame stop codon after it, no in-frame
   stop ends in between, and every earlier in-frame start is cut off by an in-frame stop (a is the FIRST start since the
   previous stop) *)
Definition is_orf_x (g : str) (sw pw : list str) (s : str) (f : Z) (a e : Z) : Prop :=
  In a (starts_x g sw s f) /\ In e (stops_x g pw s f) /\ a < e /\
  (forall e', In e' (stops_x g pw s f) -> e' < e -> e' <= a) /\
  (forall a', In a' (starts_x g sw s f) -> a' < a -> exists e', In e' (stops_x g pw s f) /\ a' < e' /\ e' <= a).
Definition is_orf (s : str) (f : Z) (a e : Z) : Prop :=
  In a (frame_starts s f) /\ In e (frame_stops s f) /\ a < e /\
  (forall e', In e' (frame_stops s f) -> e' < e -> e' <= a) /\
  (forall a', In a' (frame_starts s f) -> a' < a -> exists e', In e' (frame_stops s f) /\ a' < e' /\ e' <= a).

(* ---- domain ---------------------------------------------------------------------------------------------------- *)
(* lower-case letters (soft-masked residues; reachable only by in-place edits, the constructor upper-cases) are residues
   that belong to no codon: the codon words are upper case, str.translate leaves them alone *)
Definition in_nt (c : byte) : bool := existsb (byte_eqb c) (bs "ACGTU-acgtu"%bs).
Definition frame_ok (f : Z) : bool := (-3 <=? f) && (f <=? 2).
Fixpoint nodupz (l : list Z) : bool :=
  match l with [] => true | x :: r => negb (existsb (Z.eqb x) r) && nodupz r end.
Definition is_never (ns : nstart) : bool := match ns with NSNever => true | _ => false end.
Definition is_always (ns : nstart) : bool := match ns with NSAlways => true | _ => false end.

Definition wf_C12 (rf : rfspec) (ns : nstart) (need_stop : bool) (minlen : Z) (s : str) : bool :=
  let fr := frames_of rf in
  forallb in_nt s && forallb frame_ok fr && nodupz fr && (0 <=? minlen).

(* ---- harness entry point ---------------------------------------------------------------------------------------- *)
Definition val_of_orf (o : orf) : val :=
  VL [VI (o_start o); VI (o_stop o); VS (if o_plus o then bs "+"%bs else bs "-"%bs); VI (o_rf o)].
Definition val_of_result (r : result) : val :=
  match r with
  | ROk l => VL (map val_of_orf l)
  | RAssert => VE (bs "AssertionError"%bs)
  | RFuel => VE (bs "OutOfFuel"%bs)
  end.
Definition ns_of_N (n : N) : nstart := match n with 0%N => NSAlways | 1%N => NSOnce | _ => NSNever end.

Definition run_C12 (rf : rfspec) (ns : N) (need_stop : bool) (minlen : Z) (s : str) : val :=
  VL [VB (wf_C12 rf (ns_of_N ns) need_stop minlen s); val_of_result (find_orfs rf (ns_of_N ns) need_stop minlen s)].

(* baskets: BioBasket([BioSeq(text, id=id) ...]).find_orfs(rf, ..., minlen=, ftype=) optionally followed by
   .filter(len_<op>=v); every feature is observed as [type, seqid, start, stop, strand, rf] *)
Definition val_of_feat (ft : feat) : val :=
  VL [VS (ft_type ft); VS (ft_seqid ft); VI (o_start (ft_orf ft)); VI (o_stop (ft_orf ft));
      VS (if o_plus (ft_orf ft) then bs "+"%bs else bs "-"%bs); VI (o_rf (ft_orf ft))].
Definition val_of_fresult (r : fresult) : val :=
  match r with FOk l => VL (map val_of_feat l) | FErr e => VE e end.
Definition lenop_of_N (n : N) : lenop :=
  match n with 0%N => OpGe | 1%N => OpGt | 2%N => OpLe | 3%N => OpLt | 4%N => OpEq | 5%N => OpNe | 6%N => OpMin | _ => OpMax end.
Definition wf_C12_basket (rf : rfspec) (ns : nstart) (need_stop : bool) (minlen : Z) (seqs : list (str * str)) : bool :=
  negb (is_nil seqs) && forallb (fun sq => wf_C12 rf ns need_stop minlen (snd sq)) seqs.
Definition run_C12_basket (ftype : str) (rf : rfspec) (ns : N) (need_stop : bool) (minlen : Z)
           (flt : option (N * Z)) (seqs : list (str * str)) : val :=
  let r := basket_find_orfs ftype rf (ns_of_N ns) need_stop minlen seqs in
  VL [VB (wf_C12_basket rf (ns_of_N ns) need_stop minlen seqs);
      val_of_fresult (match flt with Some (op, v) => fmap_res (filter_len (lenop_of_N op) v) r | None => r end)].

(* ---- entry point for the gap set / custom codon sets / every rf form ------------------------------------------------- *)
Definition GAP_SAFE : str := bs ".-_~*N"%bs.
Definition is_alpha (c : byte) : bool :=
  let n := Byte.to_N c in ((65 <=? n) && (n <=? 90) || (97 <=? n) && (n <=? 122))%N.
(* the gap string is a regex class body: '-' only first or last (no ranges), every character its own complement *)
Definition dash_edge (g : str) : bool :=
  match g with [] => true | _ :: r => negb (existsb (byte_eqb "-"%byte) (removelast r)) end.
Definition gap_ok (gap : option str) : bool :=
  match gap with None => true | Some g => negb (is_nil g) && forallb (fun c => existsb (byte_eqb c) GAP_SAFE) g && dash_edge g end.
Definition word_ok (g : str) (w : str) : bool := negb (is_nil w) && forallb (fun c => is_alpha c && negb (is_gap_g g c)) w.
Definition words_ok (g : str) (ws : list str) : bool := forallb (word_ok g) ws.
Definition in_nt_x (c : byte) : bool := existsb (byte_eqb c) (bs "ACGTUN-._~*acgtun"%bs).
Definition wf_C12x (gap : option str) (start stop : str) (rf : rfany) (ns : nstart) (need_stop : bool) (minlen : Z) (s : str) : bool :=
  gap_ok gap && words_ok (gap_set gap) (pat_words start) && words_ok (gap_set gap) (pat_words stop) &&
  forallb in_nt_x s && (0 <=? minlen).
Definition val_of_xresult (r : xresult) : val :=
  match r with XOk l => VL (map val_of_orf l) | XErr e => VE e end.
Definition run_C12x (gap : option str) (start stop : str) (rf : rfany) (ns : N) (need_stop : bool) (minlen : Z) (s : str) : val :=
  VL [VB (wf_C12x gap start stop rf (ns_of_N ns) need_stop minlen s);
      val_of_xresult (find_orfs_any gap start stop rf (ns_of_N ns) need_stop minlen s)].
