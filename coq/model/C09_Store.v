(* C09 store model: the index FILE as state.
   - binarysearchfile 0.2.0 (the back end of mode 'binary'): tuple order, sorted(), the fixed-width record layout, the whole
     file layout (magic, offsets, header, field table, records), read_header()/read(), _binarysearch, search/get;
   - dbm as a key -> value map holding _pack()ed values and the header under the key 'header';
   - FastaIndex.__init__ (reopen) / add / _search / __len__ as a state machine over histories of operations.
   No proofs here (proof/C09_Sort.v, C09_Layout.v, C09_Hist.v). *)
From Coq Require Import List Arith ZArith NArith Bool.
From Coq.Strings Require Import Byte.
Import ListNotations.
From SV Require Import Text C09_Model.

(* ------------------------------------------------------------------ order: Python bytes and tuple comparison *)
Fixpoint str_cmp (a b : str) : comparison :=
  match a, b with
  | [], [] => Eq
  | [], _ :: _ => Lt
  | _ :: _, [] => Gt
  | x :: a', y :: b' => match N.compare (Byte.to_N x) (Byte.to_N y) with Eq => str_cmp a' b' | c => c end
  end.
Definition str_ltb (a b : str) : bool := match str_cmp a b with Lt => true | _ => false end.
(* records of FastaBinarySearchFile: (seqid, file number, line length, offset) = [entry]; tuples compare lexicographically *)
Definition entry_cmp (a b : entry) : comparison :=
  match str_cmp (e_id a) (e_id b) with
  | Eq => match Nat.compare (e_fn a) (e_fn b) with
          | Eq => match Nat.compare (e_linelen a) (e_linelen b) with
                  | Eq => Nat.compare (e_start a) (e_start b)
                  | c => c
                  end
          | c => c
          end
  | c => c
  end.
Definition entry_leb (a b : entry) : bool := match entry_cmp a b with Gt => false | _ => true end.
(* sorted(data), binarysearchfile.py write(): insertion sort (the order is total and antisymmetric, so every sorting
   algorithm yields the same list: proof/C09_Sort.v sorted_unique) *)
Fixpoint insert_e (x : entry) (l : list entry) : list entry :=
  match l with
  | [] => [x]
  | y :: r => if entry_leb x y then x :: l else y :: insert_e x r
  end.
Definition sort_e (l : list entry) : list entry := fold_right insert_e [] l.
(* sorted(fnames), fastaindex.py add(): file names are ASCII here, code point order = byte order *)
Fixpoint insert_s (x : str) (l : list str) : list str :=
  match l with
  | [] => [x]
  | y :: r => match str_cmp x y with Gt => y :: insert_s x r | _ => x :: l end
  end.
Definition sort_s (l : list str) : list str := fold_right insert_s [] l.

(* ------------------------------------------------------------------ _binarysearch(f, x, hi, left=True), binarysearchfile.py:45-53 *)
Fixpoint bsearch_loop (fuel : nat) (key : nat -> str) (x : str) (lo hi : nat) : option nat :=
  match fuel with
  | 0 => None
  | S fuel' =>
      if lo <? hi then
        let mid := (lo + hi) / 2 in
        if str_ltb (key mid) x then bsearch_loop fuel' key x (mid + 1) hi
        else bsearch_loop fuel' key x lo mid
      else Some lo
  end.
Definition bsearch (key : nat -> str) (x : str) (hi : nat) : option nat := bsearch_loop (S hi) key x 0 hi.
(* _get_key(i) on the record list of the file; reading at the end of the file gives b'' *)
Definition bsf_key (recs : list entry) (i : nat) : str :=
  match nth_error recs i with Some e => e_id e | None => [] end.
(* BinarySearchFile.search + get (:176-195): lower bound, then the key found there must be the key asked for.
   (b'' at the end of the file: _get_data reads empty fields, which decode to (b'', 0, 0, 0).) *)
Definition bsf_get (recs : list entry) (id : str) : res entry :=
  match bsearch (bsf_key recs) id (length recs) with
  | None => Err (bs "Fuel"%bs)
  | Some k => if str_eqb id (bsf_key recs k)
              then Ok (match nth_error recs k with Some e => e | None => Entry [] 0 0 0 end)
              else Err (bs "ValueError"%bs)
  end.

(* ------------------------------------------------------------------ fixed-width record layout, DTYPE 0 and 50 *)
Definition SP : byte := " "%byte.
Definition byte_length (n : N) : nat := (bit_length n + 7) / 8.             (* _byte_length *)
Definition ljust (s : nat) (v : str) : str := v ++ repeat SP (s - length v).   (* bytes.ljust(s, b' ') *)
Fixpoint drop_sp (s : str) : str := match s with [] => [] | c :: r => if byte_eqb c SP then drop_sp r else s end.
Definition rstrip_sp (v : str) : str := rev (drop_sp (rev v)).              (* bytes.rstrip(b' ') *)
Definition max_list (l : list nat) : nat := fold_right Nat.max 0 l.
Definition sizes := (nat * nat * nat * nat)%type.
(* write(): s = max(len_(d1) for d1 in d) per column; 0 for every column when there are no records *)
Definition bsf_sizes (data : list entry) : sizes :=
  (max_list (map (fun e => length (e_id e)) data),
   max_list (map (fun e => byte_length (N.of_nat (e_fn e))) data),
   max_list (map (fun e => byte_length (N.of_nat (e_linelen e))) data),
   max_list (map (fun e => byte_length (N.of_nat (e_start e))) data)).
Definition recsize (sz : sizes) : nat := let '(s0, s1, s2, s3) := sz in s0 + s1 + s2 + s3.
Definition enc_rec (sz : sizes) (e : entry) : option str :=
  let '(s0, s1, s2, s3) := sz in
  match to_bytes s1 (N.of_nat (e_fn e)), to_bytes s2 (N.of_nat (e_linelen e)), to_bytes s3 (N.of_nat (e_start e)) with
  | Some a, Some b, Some c => Some (ljust s0 (e_id e) ++ a ++ b ++ c)
  | _, _, _ => None
  end.
Definition sub (f : str) (a n : nat) : str := firstn n (skipn a f).
Definition dec_rec (sz : sizes) (b : str) : entry :=
  let '(s0, s1, s2, s3) := sz in
  Entry (rstrip_sp (sub b 0 s0)) (N.to_nat (from_bytes (sub b s0 s1))) (N.to_nat (from_bytes (sub b (s0 + s1) s2)))
        (N.to_nat (from_bytes (sub b (s0 + s1 + s2) s3))).
Fixpoint enc_all (sz : sizes) (recs : list entry) : option str :=
  match recs with
  | [] => Some []
  | e :: r => match enc_rec sz e, enc_all sz r with Some a, Some b => Some (a ++ b) | _, _ => None end
  end.
(* n consecutive records from a data region *)
Fixpoint dec_all (sz : sizes) (n : nat) (d : str) : list entry :=
  match n with
  | 0 => []
  | S n' => dec_rec sz (firstn (recsize sz) d) :: dec_all sz n' (skipn (recsize sz) d)
  end.

(* ------------------------------------------------------------------ the whole file, binarysearchfile.py write() :216-258 *)
Definition MAGIC : str := [xfe; x8a; x01; x01].                              (* FastaBinarySearchFile.magic *)
Definition field_meta (ty s : nat) : option str :=
  match to_bytes 1 (N.of_nat ty), to_bytes 2 (N.of_nat s) with Some a, Some b => Some (a ++ b) | _, _ => None end.
Definition meta_bytes (sz : sizes) : option str :=
  let '(s0, s1, s2, s3) := sz in
  match to_bytes 2 4, field_meta 0 s0, field_meta 50 s1, field_meta 50 s2, field_meta 50 s3 with
  | Some n, Some a, Some b, Some c, Some d => Some (n ++ a ++ b ++ c ++ d)
  | _, _, _, _, _ => None
  end.
(* hdr = headerstart + header ; None = OverflowError (an offset or a field size that does not fit two bytes) *)
Definition bsf_file (hdr : str) (data : list entry) : option str :=
  let sz := bsf_sizes data in
  let mo := 8 + length hdr in
  match to_bytes 2 (N.of_nat mo), to_bytes 2 (N.of_nat (mo + 14)), meta_bytes sz, enc_all sz (sort_e data) with
  | Some a, Some b, Some m, Some d => Some (MAGIC ++ a ++ b ++ hdr ++ m ++ d)
  | _, _, _, _ => None
  end.
(* read_header() :141-160 and read() :205-214 of a file with four fields *)
Definition rint (f : str) (a n : nat) : nat := N.to_nat (from_bytes (sub f a n)).
Definition bsf_parse (f : str) : option (str * sizes * list entry) :=
  let mo := rint f 4 2 in
  let dof := rint f 6 2 in
  if rint f mo 2 =? 4 then
    let sz := (rint f (mo + 3) 2, rint f (mo + 6) 2, rint f (mo + 9) 2, rint f (mo + 12) 2) in
    let n := if recsize sz =? 0 then 0 else (length f - dof) / recsize sz in
    Some (sub f 8 (mo - 8), sz, dec_all sz n (skipn dof f))
  else None.

(* ------------------------------------------------------------------ dbm: key -> value *)
Definition dbm := list (str * str).
Fixpoint db_get (k : str) (d : dbm) : option str :=
  match d with [] => None | (k', v) :: r => if str_eqb k' k then Some v else db_get k r end.
Fixpoint db_set (k v : str) (d : dbm) : dbm :=
  match d with
  | [] => [(k, v)]
  | (k', v') :: r => if str_eqb k' k then (k, v) :: r else (k', v') :: db_set k v r
  end.
Definition pack_entry (e : entry) : option str :=
  pack (N.of_nat (e_fn e)) (N.of_nat (e_linelen e)) (N.of_nat (e_start e)).
(* self.db[seqid] = _pack(fn, *data), in scan order; None = OverflowError (F15) *)
Fixpoint db_add_all (es : list entry) (d : dbm) : option dbm :=
  match es with
  | [] => Some d
  | e :: r => match pack_entry e with Some v => db_add_all r (db_set (e_id e) v d) | None => None end
  end.

(* ------------------------------------------------------------------ FastaIndex as a state machine *)
(* object fields path / files, the binary index file (None = does not exist; header after headerstart, records) and the dbm *)
Record istate := IState { st_path : str; st_files : list str; st_bin : option (str * list entry); st_db : dbm }.
Inductive op :=
| OAdd (ks : list nat) (force : bool)      (* add([names of env files ks], force=...) *)
| OReopen                                   (* FastaIndex(dbname): path and files are read back from the stored header *)
| OGet (q : query)
| OLen
| OFiles.                                   (* observe self.path, self.files *)
Definition fenv := list (str * str).       (* FASTA files: relative name, bytes *)
Fixpoint env_bytes (env : fenv) (nm : str) : str :=
  match env with [] => [] | (n, b) :: r => if str_eqb n nm then b else env_bytes r nm end.
Fixpoint index_of (x : str) (l : list str) : option nat :=
  match l with [] => None | y :: r => if str_eqb y x then Some 0 else option_map S (index_of x r) end.
(* fastaindex.py:253-259 *)
Definition register (nm : str) (files : list str) : nat * list str :=
  match index_of nm files with Some k => (k, files) | None => (length files, files ++ [nm]) end.
Fixpoint add_files (env : fenv) (names files : list str) (acc : list entry) : res (list str * list entry) :=
  match names with
  | [] => Ok (files, acc)
  | nm :: r => let '(fn, files') := register nm files in
               match scan_file (env_bytes env nm) fn with
               | Err k => Err k
               | Ok es => add_files env r files' (acc ++ es)
               end
  end.
(* the part of [answer] after the entry has been found *)
Definition answer_raw (fbytes : str) (linelen start : nat) (q : query) : val :=
  match extract fbytes linelen start (qkind_of q) with
  | Err k => VE k
  | Ok txt =>
      if N.eqb (q_api q) 0 then
        match parse_get txt with
        | Ok (id, h, d) => VL [VStrO id; VS h; VS d]
        | Err k => VE k
        end
      else VS txt
  end.
Definition VEnt (e : entry) : val :=
  VL [VS (e_id e); VI (Z.of_nat (e_fn e)); VI (Z.of_nat (e_linelen e)); VI (Z.of_nat (e_start e))].
Definition stored_hdr (mode : N) (hs : str) (s : istate) : option str :=
  if N.eqb mode MODE_DB then db_get HEADER_KEY (st_db s)
  else match st_bin s with Some (h, _) => Some (hs ++ h) | None => None end.
(* what an add call leaves on disk, as the harness observes it: binary = the bytes of the index file and what
   read_header()/read() give for them; db = number of keys *)
Definition observe_store (mode : N) (hs : str) (s : istate) : val :=
  if N.eqb mode MODE_DB then VI (Z.of_nat (length (st_db s)))
  else match st_bin s with
       | None => VNone
       | Some (h, recs) =>
           match bsf_file (hs ++ h) recs with
           | None => VE (bs "OverflowError"%bs)
           | Some f => VL [VS f; match bsf_parse f with
                                 | Some (h', _, rs) => VL [VS h'; VL (map VEnt rs)]
                                 | None => VNone
                                 end]
           end
       end.
Definition lookup_entry (mode : N) (s : istate) (id : str) : res (nat * nat * nat) :=
  if N.eqb mode MODE_DB then
    match db_get id (st_db s) with
    | None => Err (bs "KeyError"%bs)
    | Some v => let '(a, l, st) := unpack v in Ok (N.to_nat a, N.to_nat l, N.to_nat st)
    end
  else match st_bin s with
       | None => Err (bs "FileNotFoundError"%bs)
       | Some (_, recs) => match bsf_get recs id with
                           | Ok e => Ok (e_fn e, e_linelen e, e_start e)
                           | Err k => Err k
                           end
       end.
Definition step (mode : N) (hs : str) (env : fenv) (s : istate) (o : op) : istate * val :=
  match o with
  | OAdd ks force =>
      (* :244-247 a non-empty binary index refuses a further add call without force *)
      if N.eqb mode MODE_BINARY && negb force && match st_bin s with Some (_, _ :: _) => true | _ => false end
      then (s, VE (bs "ValueError"%bs))
      else
        let names := sort_s (map (fun k => fst (nth k env ([], []))) ks) in       (* :248-251 *)
        match add_files env names (st_files s) [] with
        | Err k => (s, VE k)
        | Ok (files', add) =>
            let header := header_bytes mode (st_path s) files' in                (* :268-269 *)
            if N.eqb mode MODE_DB then
              match db_add_all add (st_db s) with
              | None => (s, VE (bs "OverflowError"%bs))
              | Some d => let s' := IState (st_path s) files' (st_bin s) (db_set HEADER_KEY header d) in
                          (s', observe_store mode hs s')
              end
            else if force then
              match st_bin s with
              | None => (s, VE (bs "FileNotFoundError"%bs))                       (* self.db.read() *)
              | Some (_, old) => let s' := IState (st_path s) files' (Some (header, sort_e (old ++ add))) (st_db s) in
                                 (s', observe_store mode hs s')
              end
            else let s' := IState (st_path s) files' (Some (header, sort_e add)) (st_db s) in
                 (s', observe_store mode hs s')
        end
  | OReopen =>
      match stored_hdr mode hs s with
      | None => (s, VE (bs "ValueError"%bs))
      | Some h => match read_header mode h with
                  | Some (p, fs) => (IState p fs (st_bin s) (st_db s), VNone)
                  | None => (s, VE (bs "IndexError"%bs))
                  end
      end
  | OGet q =>
      (s, match lookup_entry mode s (q_id q) with
          | Err k => VE k
          | Ok (fn, ll, st) => match nth_error (st_files s) fn with
                               | None => VE (bs "IndexError"%bs)
                               | Some nm => answer_raw (env_bytes env nm) ll st q
                               end
          end)
  | OLen => (s, if N.eqb mode MODE_DB then VI (Z.of_nat (length (st_db s)) - 1)
               else match st_bin s with Some (_, recs) => VI (Z.of_nat (length recs)) | None => VE (bs "FileNotFoundError"%bs) end)
  | OFiles => (s, VL [VS (st_path s); VL (map VS (st_files s))])
  end.
Fixpoint run_ops (mode : N) (hs : str) (env : fenv) (s : istate) (ops : list op) : istate * list val :=
  match ops with
  | [] => (s, [])
  | o :: r => let '(s1, v) := step mode hs env s o in
              let '(s2, vs) := run_ops mode hs env s1 r in (s2, v :: vs)
  end.
Definition init_state (path : str) : istate := IState path [] None [].

(* ------------------------------------------------------------------ domain of the history stream *)
Definition name_ok (s : str) : bool :=
  wf_name s && negb (match s with [] => true | _ => false end) && forallb (fun c => N.ltb (Byte.to_N c) 128) s.
Definition op_ok (nenv : nat) (o : op) : bool :=
  match o with
  | OAdd ks _ => forallb (fun k => k <? nenv) ks
  | OGet q => wf_query q
  | _ => true
  end.
(* the first operation is an add call (before it there is no index file to open or to ask) *)
Definition starts_with_add (ops : list op) : bool := match ops with OAdd _ _ :: _ => true | _ => false end.
(* F51 (fixed in /repo, d6a9af0): a dbm index that is opened again is opened read-write, so add() after reopening is inside
   the domain in both modes *)
Definition wf_hist_C09 (mode : N) (env : list (str * finput)) (ops : list op) : bool :=
  N.ltb mode 2 && negb (match env with [] => true | _ => false end)
  && forallb (fun nf => name_ok (fst nf) && wf_file mode (snd nf)) env
  && nodup_str (map fst env) && nodup_str (concat (map (fun nf => ids_of (snd nf)) env))
  && starts_with_add ops && forallb (op_ok (length env)) ops.
Definition run_C09_hist (mode : N) (hs path : str) (env : list (str * finput)) (ops : list op) : val :=
  let benv := map (fun nf => (fst nf, file_bytes (snd nf))) env in
  VL [VB (wf_hist_C09 mode env ops); VL (snd (run_ops mode hs benv (init_state path) ops))].

(* ------------------------------------------------------------------ the store alone: write / read / search on record lists *)
Definition ent_of (t : str * (nat * nat * nat)) : entry :=
  Entry (fst t) (fst (fst (snd t))) (snd (fst (snd t))) (snd (snd t)).
Definition wf_store (data : list entry) (keys : list str) : bool :=
  forallb (fun e => wf_id (e_id e)) data && forallb wf_id keys.
(* write(data, header) then read_header(), read(), get(key) for every key; dbm: the same records through _pack/_unpack *)
Definition run_C09_store (hdr : str) (data : list entry) (keys : list str) : val :=
  VL [VB (wf_store data keys);
      match bsf_file hdr data with
      | None => VE (bs "OverflowError"%bs)
      | Some f =>
          VL [VS f;
              match bsf_parse f with
              | Some (h, _, rs) => VL [VS h; VL (map VEnt rs)]
              | None => VNone
              end;
              VL (map (fun k => match bsf_get (sort_e data) k with Ok e => VEnt e | Err x => VE x end) keys);
              VL (map (fun e => match pack_entry e with
                                | None => VE (bs "OverflowError"%bs)
                                | Some b => let '(a, l, s) := unpack b in VL [VS b; VI (Z.of_N a); VI (Z.of_N l); VI (Z.of_N s)]
                                end) data)]
      end].

(* ------------------------------------------------------------------ FastaIndex._search on its argument forms, :277-296 *)
(* seqids is a str, an (id, start, stop) triple, or a list of such items; iter / iter_fasta / iter_fastaheader yield one
   answer per item, in order; the first failing item ends the call with its exception *)
Inductive qitem := QId (id : str) | QTriple (id : str) (i j : option Z).
Definition item_query (api : N) (it : qitem) : query :=
  match it with QId id => Query api id None | QTriple id i j => Query api id (Some (i, j)) end.
(* :279-281 "len(seqids) == 3 and not isinstance(seqids[1], (bytes, str))": a LIST of exactly three items whose second is a
   triple is taken for one (id, start, stop) query itself; start is then a tuple and the call ends in TypeError *)
Definition quirk (items : list qitem) : bool := match items with [_; QTriple _ _ _; _] => true | _ => false end.
Fixpoint collect (vs : list val) (acc : list val) : val :=
  match vs with
  | [] => VL (rev acc)
  | VE k :: _ => VE k
  | v :: r => collect r (v :: acc)
  end.
(* the quirk: the first item is looked up (a failing lookup ends the call); then the header-only form returns its header line
   without looking at the range (:94-95), the other forms compare the tuple with 0 (:113): TypeError *)
Definition iter_answers (mode : N) (hs : str) (env : fenv) (s : istate) (api : N) (items : list qitem) : val :=
  if quirk items then
    match items with
    | QId id :: _ =>
        match snd (step mode hs env s (OGet (Query api id None))) with
        | VE k => VE k
        | v => if N.eqb api 2 then VL [v] else VE (bs "TypeError"%bs)
        end
    | _ => VE (bs "TypeError"%bs)
    end
  else collect (map (fun it => snd (step mode hs env s (OGet (item_query api it)))) items) [].
Inductive xop := XOp (o : op) | XIter (api : N) (items : list qitem).
Fixpoint run_xops (mode : N) (hs : str) (env : fenv) (s : istate) (ops : list xop) : istate * list val :=
  match ops with
  | [] => (s, [])
  | XOp o :: r => let '(s1, v) := step mode hs env s o in
                  let '(s2, vs) := run_xops mode hs env s1 r in (s2, v :: vs)
  | XIter api items :: r => let '(s2, vs) := run_xops mode hs env s r in (s2, iter_answers mode hs env s api items :: vs)
  end.
Definition xop_ok (nenv : nat) (x : xop) : bool :=
  match x with
  | XOp o => op_ok nenv o
  | XIter api items => N.ltb api 3 && negb (quirk items) && forallb (fun it => wf_query (item_query api it)) items
  end.
Definition plain (ops : list xop) : list op := flat_map (fun x => match x with XOp o => [o] | XIter _ _ => [] end) ops.
Definition run_C09_xhist (mode : N) (hs path : str) (env : list (str * finput)) (ops : list xop) : val :=
  let benv := map (fun nf => (fst nf, file_bytes (snd nf))) env in
  VL [VB (wf_hist_C09 mode env (plain ops) && forallb (xop_ok (length env)) ops);
      VL (snd (run_xops mode hs benv (init_state path) ops))].
