(* C19 model: Entrez.wait_before_request (_entrez.py:26-33) as a state machine under a virtual clock with an adversarial
   environment, and the cache decision of fetch_seq (_entrez.py:35-62) over an abstract file system. No proofs here. *)
From Coq Require Import List ZArith Lia Bool Arith NArith.
From Coq.Strings Require Import Byte.
Import ListNotations.
From SV Require Import Text G_entrez.
Open Scope Z_scope.

Section Rate.
Variable N : nat.      (* allowed requests per window: _requests or _requests_api_key *)
Variable W : Z.        (* window length in ticks: _seconds * ticks_per_second *)

(* state of the client: deque oldest-first, virtual clock; ghost: all recorded request start times, newest first *)
Record st := { dq : list Z; now : Z; hist : list Z; slept : list Z }.

(* one call: the caller arrives [gap] ticks after the previous request returned,
   sleep may overshoot by [eps], the request itself lasts [dur] *)
Record call := { gap : Z; eps : Z; dur : Z }.
Definition call_ok (c : call) := 0 <= gap c /\ 0 <= eps c /\ 0 <= dur c.
Definition call_okb (c : call) := (0 <=? gap c) && (0 <=? eps c) && (0 <=? dur c).

(* wait_before_request: returns the new deque, the time after it, and the time slept (0 = sleep not called) *)
Definition wait (d : list Z) (t : Z) (e : Z) : list Z * Z * Z :=
  if (N <=? length d)%nat then
    match d with
    | prev :: rest =>
        let elapsed := t - prev in
        if elapsed <? W then (rest ++ [t + (W - elapsed) + e], t + (W - elapsed) + e, (W - elapsed) + e)
        else (rest ++ [t], t, 0)
    | [] => ([t], t, 0)          (* only reachable for N = 0: deque.popleft() on an empty deque would raise *)
    end
  else (d ++ [t], t, 0).

Definition step (s : st) (c : call) : st :=
  let t := now s + gap c in
  let '(d', t', sl) := wait (dq s) t (eps c) in
  {| dq := d'; now := t' + dur c; hist := t' :: hist s; slept := sl :: slept s |}.

Definition init : st := {| dq := []; now := 0; hist := []; slept := [] |}.
Definition run (cs : list call) : st := fold_left step cs init.

(* spacing: the request N places earlier started at least W before *)
Definition spaced (h : list Z) : Prop :=
  forall k a b, nth_error h k = Some a -> nth_error h (k + N) = Some b -> a - b >= W.

(* number of recorded starts inside the half-open window [x, x + W) *)
Definition in_window (x : Z) (t : Z) : bool := (x <=? t) && (t <? x + W).
Definition count_in_window (x : Z) (h : list Z) : nat := length (filter (in_window x) h).
End Rate.

Definition limit (api_key : bool) : nat := if api_key then entrez_requests_api_key else entrez_requests.
Definition window : Z := Z.of_nat entrez_seconds * ticks_per_second.

(* ---- cache decision of fetch_seq ---------------------------------------------------------------------------- *)
Definition key := (N * N * N)%type.   (* (path index, seqid index, extension index) *)
Definition key_eqb (a b : key) : bool :=
  let '(a1, a2, a3) := a in let '(b1, b2, b3) := b in N.eqb a1 b1 && N.eqb a2 b2 && N.eqb a3 b3.
Definition fs := list (key * str).    (* files that exist, with their content *)
Fixpoint fs_get (k : key) (f : fs) : option str :=
  match f with [] => None | (k', v) :: r => if key_eqb k' k then Some v else fs_get k r end.
Definition fs_set (k : key) (v : str) (f : fs) : fs := (k, v) :: f.

(* f_payload: what the server answers if this call issues a request (the server may answer differently at different times) *)
Record fcall := { f_path : option N; f_id : N; f_ext : N; f_overwrite : bool; f_payload : str }.
Definition fkey (c : fcall) (p : N) : key := (p, f_id c, f_ext c).

(* result: did it issue a request, what content does the caller get (file content or in-memory text) *)
Definition fetch (f : fs) (c : fcall) : fs * (bool * str) :=
  match f_path c with
  | None => (f, (true, f_payload c))
  | Some p =>
      let k := fkey c p in
      match fs_get k f with
      | Some content =>
          if (Nat.eqb (length content) 0) || f_overwrite c
          then (fs_set k (f_payload c) f, (true, f_payload c))
          else (f, (false, content))
      | None => (fs_set k (f_payload c) f, (true, f_payload c))
      end
  end.
Fixpoint fetch_all (f : fs) (cs : list fcall) : fs * list (bool * str) :=
  match cs with
  | [] => (f, [])
  | c :: r => let '(f1, o) := fetch f c in let '(f2, os) := fetch_all f1 r in (f2, o :: os)
  end.

(* ---- harness entry points ---- *)
Definition mk_call (t : Z * Z * Z) : call := let '(g, e, d) := t in {| gap := g; eps := e; dur := d |}.
Definition run_C19_rate (api_key : bool) (cs : list (Z * Z * Z)) : val :=
  let calls := map mk_call cs in
  let s := run (limit api_key) window calls in
  VL [VB (forallb call_okb calls); VL [VZs (rev (hist s)); VZs (rev (slept s))]].

Definition mk_fcall (t : option N * N * N * bool * str) : fcall :=
  let '(p, i, e, o, pl) := t in {| f_path := p; f_id := i; f_ext := e; f_overwrite := o; f_payload := pl |}.
Definition run_C19_cache (f0 : list (N * N * N * str)) (cs : list (option N * N * N * bool * str)) : val :=
  let f := map (fun '(p, i, e, v) => ((p, i, e), v)) f0 in
  let '(_, os) := fetch_all f (map mk_fcall cs) in
  VL [VB true; VL (map (fun '(r, c) => VL [VB r; VS c]) os)].
