(* C19 model: Entrez.wait_before_request (_entrez.py:26-33) as a state machine under a virtual clock with an adversarial
   environment, and the cache decision of fetch_seq (_entrez.py:35-62) over an abstract file system. No proofs here. *)
From Coq Require Import List ZArith Lia Bool Arith NArith.
From Coq.Strings Require Import Byte.
Import ListNotations.
From SV Require Import Text G_entrez.
Open Scope Z_scope.

Section Rate.
Variable N : nat.      (* allowed requests per window: _requests or _requests_api_key *)
Variable W : Z.        (* window length in ticks: _seconds * ticks_per_second *)

(* state of the client: deque oldest-first, virtual clock; ghost: all recorded request start times, newest first *)
Record st := { dq : list Z; now : Z; hist : list Z; slept : list Z }.

(* one call: the caller arrives [gap] ticks after the previous request returned,
   sleep may overshoot by [eps], the request itself lasts [dur] *)
Record call := { gap : Z; eps : Z; dur : Z }.
Definition call_ok (c : call) := 0 <= gap c /\ 0 <= eps c /\ 0 <= dur c.
Definition call_okb (c : call) := (0 <=? gap c) && (0 <=? eps c) && (0 <=? dur c).

(* wait_before_request: returns the new deque, the time after it, and the time slept (0 = sleep not called) *)
Definition wait (d : list Z) (t : Z) (e : Z) : list Z * Z * Z :=
  if (N <=? length d)%nat then
    match d with
    | prev :: rest =>
        let elapsed := t - prev in
        if elapsed <? W then (rest ++ [t + (W - elapsed) + e], t + (W - elapsed) + e, (W - elapsed) + e)
        else (rest ++ [t], t, 0)
    | [] => ([t], t, 0)          (* only reachable for N = 0: deque.popleft() on an empty deque would raise *)
    end
  else (d ++ [t], t, 0).

Definition step (s : st) (c : call) : st :=
  let t := now s + gap c in
  let '(d', t', sl) := wait (dq s) t (eps c) in
  {| dq := d'; now := t' + dur c; hist := t' :: hist s; slept := sl :: slept s |}.

Definition init : st := {| dq := []; now := 0; hist := []; slept := [] |}.
Definition run (cs : list call) : st := fold_left step cs init.

(* spacing: the request N places earlier started at least W before *)
Definition spaced (h : list Z) : Prop :=
  forall k a b, nth_error h k = Some a -> nth_error h (k + N) = Some b -> a - b >= W.

(* number of recorded starts inside the half-open window [x, x + W) *)
Definition in_window (x : Z) (t : Z) : bool := (x <=? t) && (t <? x + W).
Definition count_in_window (x : Z) (h : list Z) : nat := length (filter (in_window x) h).
End Rate.

Definition limit (api_key : bool) : nat := if api_key then entrez_requests_api_key else entrez_requests.
Definition window : Z := Z.of_nat entrez_seconds * ticks_per_second.

(* ---- cache decision of fetch_seq ---------------------------------------------------------------------------- *)
Definition key := (N * N * N)%type.   (* (path index, seqid index, extension index) *)
Definition key_eqb (a b : key) : bool :=
  let '(a1, a2, a3) := a in let '(b1, b2, b3) := b in N.eqb a1 b1 && N.eqb a2 b2 && N.eqb a3 b3.
Definition fs := list (key * str).    (* files that exist, with their content *)
Fixpoint fs_get (k : key) (f : fs) : option str :=
  match f with [] => None | (k', v) :: r => if key_eqb k' k then Some v else fs_get k r end.
Definition fs_set (k : key) (v : str) (f : fs) : fs := (k, v) :: f.

(* f_payload: what the server answers if this call issues a request (the server may answer differently at different times) *)
Record fcall := { f_path : option N; f_id : N; f_ext : N; f_overwrite : bool; f_payload : str }.
Definition fkey (c : fcall) (p : N) : key := (p, f_id c, f_ext c).

(* result: did it issue a request, what content does the caller get (file content or in-memory text) *)
Definition fetch (f : fs) (c : fcall) : fs * (bool * str) :=
  match f_path c with
  | None => (f, (true, f_payload c))
  | Some p =>
      let k := fkey c p in
      match fs_get k f with
      | Some content =>
          if (Nat.eqb (length content) 0) || f_overwrite c
          then (fs_set k (f_payload c) f, (true, f_payload c))
          else (f, (false, content))
      | None => (fs_set k (f_payload c) f, (true, f_payload c))
      end
  end.
Fixpoint fetch_all (f : fs) (cs : list fcall) : fs * list (bool * str) :=
  match cs with
  | [] => (f, [])
  | c :: r => let '(f1, o) := fetch f c in let '(f2, os) := fetch_all f1 r in (f2, o :: os)
  end.

(* ---- harness entry points ---- *)
Definition mk_call (t : Z * Z * Z) : call := let '(g, e, d) := t in {| gap := g; eps := e; dur := d |}.

Definition mk_fcall (t : option N * N * N * bool * str) : fcall :=
  let '(p, i, e, o, pl) := t in {| f_path := p; f_id := i; f_ext := e; f_overwrite := o; f_payload := pl |}.
Definition run_C19_cache (f0 : list (N * N * N * str)) (cs : list (option N * N * N * bool * str)) : val :=
  let f := map (fun '(p, i, e, v) => ((p, i, e), v)) f0 in
  let '(_, os) := fetch_all f (map mk_fcall cs) in
  VL [VB true; VL (map (fun '(r, c) => VL [VB r; VS c]) os)].

(* =================================================================================================================
   v2 (round 7): the whole client object of sugar/web/_entrez.py - limiter, cache, file names, key switches, failures
   ================================================================================================================= *)

(* ---- rate: the limit is chosen PER CALL (_entrez.py:27 reads self.api_key at every call; api_key is a public attribute) ----
   the function before fix a09a4a0: *)
Definition rstep (s : st) (kc : bool * call) : st := step (limit (fst kc)) window s (snd kc).
Definition run2 (cs : list (bool * call)) : st := fold_left rstep cs init.
(* the popleft branch is taken at this call (deque as long as the limit of THIS call) *)
Definition pops (s : st) (key : bool) : bool := (limit key <=? length (dq s))%nat.

(* ---- wait_before_request as it is since fix a09a4a0 (F53), _entrez.py:26-37:
        while len(self._request_times) >= requests: prev_time = popleft()      -- trim to the last N stamps, pop the oldest of them
        if prev_time is not None: ... sleep ...; append(perf_counter())         -- [wait] on the trimmed deque
   [step]/[wait] above are this function on a deque that is not longer than N (always the case with one key setting, see
   C19_const_key_is_run); [rstep]/[run2] are the function BEFORE the fix (one popleft only), kept for the record ---- *)
Definition trim (N : nat) (s : st) : st :=
  {| dq := skipn (length (dq s) - N) (dq s); now := now s; hist := hist s; slept := slept s |}.
Definition stepF (N : nat) (W : Z) (s : st) (c : call) : st := step N W (trim N s) c.
Definition rstepF (s : st) (kc : bool * call) : st := stepF (limit (fst kc)) window s (snd kc).
Definition runF (cs : list (bool * call)) : st := fold_left rstepF cs init.


(* ---- file names: _entrez.py:45  os.path.join(path, seqid + '.' + ext)  (posixpath.join for two arguments) ---- *)
Definition slash : byte := "/"%byte.
Definition dot : byte := "."%byte.
Definition starts_with_slash (s : str) : bool := match s with c :: _ => byte_eqb c slash | [] => false end.
Fixpoint ends_with_slash (s : str) : bool :=
  match s with [] => false | c :: r => match r with [] => byte_eqb c slash | _ => ends_with_slash r end end.
Definition path_join (a b : str) : str :=
  if starts_with_slash b then b
  else if (Nat.eqb (length a) 0) || ends_with_slash a then a ++ b else a ++ slash :: b.
Definition basename (id ext : str) : str := id ++ dot :: ext.
Definition fname (path id ext : str) : str := path_join path (basename id ext).
Definition has_byte (c : byte) (s : str) : bool := existsb (byte_eqb c) s.

(* ---- file system keyed by the file name string (faithful while names are normalised: no '/' in id and ext) ---- *)
Definition fs2 := list (str * str).
Fixpoint fs2_get (n : str) (f : fs2) : option str :=
  match f with [] => None | (n', v) :: r => if str_eqb n' n then Some v else fs2_get n r end.
Definition fs2_set (n v : str) (f : fs2) : fs2 := (n, v) :: f.

(* what the HTTP layer does with a request: an answer text, or an exception (requests.get raises / raise_for_status raises) *)
Inductive answer := Ans (payload : str) | Fail (http : bool).
Record attempt := { a_eps : Z; a_dur : Z; a_ans : answer }.
Definition attempt0 : attempt := {| a_eps := 0; a_dur := 0; a_ans := Ans [] |}.

(* one public call. o_kind: 0 fetch_seq, 1 get_seq, 2 fetch_basket, 3 get_basket. o_gap: idle time before the call.
   o_key: bool(client.api_key) at this call. o_self: client.path. o_path: the path= option. o_env: what the environment does with the 1st, 2nd, ... request of this call. *)
Record op := { o_kind : N; o_gap : Z; o_key : bool; o_self : option str; o_path : option str; o_ids : list str;
               o_rettype : str; o_ext : option str; o_ow : bool; o_env : list attempt }.

(* :39  path = path or self.path   (truthiness: path='' falls back to self.path, which may itself be '' or None) *)
Definition eff_path (o : op) : option str :=
  match o_path o with Some (c :: r) => Some (c :: r) | _ => o_self o end.
(* :40-41  ext None -> rettype ('' stays '') *)
Definition eff_ext (o : op) : str := match o_ext o with Some e => e | None => o_rettype o end.
(* :44-47  file name iff path is not None (path '' gives a name relative to the working directory) *)
Definition cache_name (o : op) (id : str) : option str := option_map (fun p => fname p id (eff_ext o)) (eff_path o).
(* :48-49 *)
Definition need_request (f : fs2) (fn : option str) (ow : bool) : bool :=
  match fn with
  | None => true
  | Some n => match fs2_get n f with None => true | Some v => Nat.eqb (length v) 0 || ow end
  end.

(* client state: limiter state, idle time since the last request returned, ghost list of the limiter calls made (newest first),
   files *)
Record cl := { c_rate : st; c_pend : Z; c_calls : list (bool * call); c_fs : fs2 }.
Definition cl_init (f : fs2) : cl := {| c_rate := init; c_pend := 0; c_calls := []; c_fs := f |}.

Inductive res := RName (n : str) | RHandle (content : str) | RExc (http : bool).
(* what one id occurrence did: request issued?, its start time, time slept, sent with key?, file name concerned, result *)
Record ev := { e_req : bool; e_start : Z; e_slept : Z; e_key : bool; e_name : option str; e_ans : answer; e_ow : bool; e_res : res }.

(* fetch_seq :35-62 for one id *)
Definition fetch_one (s : cl) (o : op) (id : str) (a : attempt) : cl * ev :=
  let fn := cache_name o id in
  if need_request (c_fs s) fn (o_ow o) then
    let c := {| gap := c_pend s; eps := a_eps a; dur := a_dur a |} in
    let r := stepF (limit (o_key o)) window (c_rate s) c in      (* :58 wait_before_request, :59 requests.get *)
    let start := hd 0 (hist r) in
    let sl := hd 0 (slept r) in
    let mk f' x := ({| c_rate := r; c_pend := 0; c_calls := (o_key o, c) :: c_calls s; c_fs := f' |},
                    {| e_req := true; e_start := start; e_slept := sl; e_key := o_key o; e_name := fn; e_ans := a_ans a;
                       e_ow := o_ow o; e_res := x |}) in
    match a_ans a with
    | Fail h => mk (c_fs s) (RExc h)                            (* :55/:56 raise: start recorded, nothing written *)
    | Ans pl => match fn with
                | None => mk (c_fs s) (RHandle pl)              (* :58 *)
                | Some n => mk (fs2_set n pl (c_fs s)) (RName n)   (* :60-62 *)
                end
    end
  else (s, {| e_req := false; e_start := 0; e_slept := 0; e_key := o_key o; e_name := fn; e_ans := a_ans a; e_ow := o_ow o;
              e_res := match fn with Some n => RName n | None => RHandle [] end |}).

Definition is_exc (r : res) : bool := match r with RExc _ => true | _ => false end.

(* fetch_basket :64-65: a list comprehension - ids in order, duplicates not merged, the first exception ends it *)
Fixpoint fetch_list (s : cl) (o : op) (ids : list str) (env : list attempt) : cl * list ev :=
  match ids with
  | [] => (s, [])
  | id :: r =>
      let a := hd attempt0 env in
      let '(s1, e) := fetch_one s o id a in
      if is_exc (e_res e) then (s1, [e])
      else let '(s2, es) := fetch_list s1 o r (if e_req e then tl env else env) in (s2, e :: es)
  end.

Definition op_ids (o : op) : list str :=
  if (N.eqb (o_kind o) 0 || N.eqb (o_kind o) 1)%bool then firstn 1 (o_ids o) else o_ids o.
Definition op_is_get (o : op) : bool := (N.eqb (o_kind o) 1 || N.eqb (o_kind o) 3)%bool.

Definition do_op (s : cl) (o : op) : cl * list ev :=
  let s0 := {| c_rate := c_rate s; c_pend := c_pend s + o_gap o; c_calls := c_calls s; c_fs := c_fs s |} in
  fetch_list s0 o (op_ids o) (o_env o).

Fixpoint do_ops (s : cl) (os : list op) : cl * list (list ev) :=
  match os with
  | [] => (s, [])
  | o :: r => let '(s1, es) := do_op s o in let '(s2, ess) := do_ops s1 r in (s2, es :: ess)
  end.

(* the text the reader is given for a result: the file's content (get_seq :71 read(fname)), or the in-memory text *)
Definition delivered (f : fs2) (r : res) : option str :=
  match r with RName n => fs2_get n f | RHandle c => Some c | RExc _ => None end.

(* get_seq / get_basket :67-77 over an abstract reader: read : text -> parsed records, or failure *)
Section Get.
Variable R : Type.
Variable read : str -> option (list R).
(* get_basket: all fetches first, then the files are read in order and the records concatenated; the first failing read raises *)
Fixpoint read_all (f : fs2) (rs : list res) : option (list R) :=
  match rs with
  | [] => Some []
  | r :: rest =>
      match delivered f r with
      | None => None
      | Some c => match read c, read_all f rest with Some x, Some y => Some (x ++ y) | _, _ => None end
      end
  end.
(* get_seq: read(fname)[0] *)
Definition get_seq_result (f : fs2) (r : res) : option R :=
  match delivered f r with Some c => match read c with Some (x :: _) => Some x | _ => None end | None => None end.
End Get.

(* ---- domain: time steps non-negative; ids / extensions without '/' (file names stay inside the cache directory) ---- *)
Definition attempt_okb (a : attempt) : bool := (0 <=? a_eps a) && (0 <=? a_dur a).
Definition op_okb (o : op) : bool :=
  (0 <=? o_gap o) && forallb attempt_okb (o_env o) && forallb (fun i => negb (has_byte slash i)) (o_ids o)
  && negb (has_byte slash (eff_ext o)).

(* ---- harness entry point ---- *)
Definition mk_attempt (t : Z * Z * option str * bool) : attempt :=
  let '(e, d, a, h) := t in {| a_eps := e; a_dur := d; a_ans := match a with Some pl => Ans pl | None => Fail h end |}.
Definition mk_op (t : N * Z * bool * option str * option str * list str * str * option str * bool * list (Z * Z * option str * bool)) : op :=
  let '(k, g, key, sp, p, ids, rt, ex, ow, env) := t in
  {| o_kind := k; o_gap := g; o_key := key; o_self := sp; o_path := p; o_ids := ids; o_rettype := rt; o_ext := ex; o_ow := ow;
     o_env := map mk_attempt env |}.
Definition exc_val (h : bool) : val := VE (if h then bs "HTTPError"%bs else bs "ConnectionError"%bs).
(* concrete reader of the entry point: the records of a text are the text itself; an empty text cannot be read *)
Definition read_id (c : str) : option (list str) := match c with [] => None | _ => Some [c] end.
Definition res_val (r : res) : val :=
  match r with RName n => VL [VS (bs "name"%bs); VS n] | RHandle c => VL [VS (bs "handle"%bs); VS c] | RExc h => exc_val h end.
Definition op_result (f : fs2) (o : op) (es : list ev) : val :=
  let rs := map e_res es in
  match find is_exc rs with
  | Some (RExc h) => exc_val h
  | _ =>
    if op_is_get o then
      if N.eqb (o_kind o) 1 then
        match rs with r :: _ => match get_seq_result str read_id f r with Some x => VS x | None => VE (bs "read"%bs) end
                    | [] => VE (bs "IndexError"%bs) end
      else match read_all str read_id f rs with Some l => VL (map VS l) | None => VE (bs "read"%bs) end
    else if N.eqb (o_kind o) 0 then match rs with r :: _ => res_val r | [] => VE (bs "IndexError"%bs) end
    else VL (map res_val rs)
  end.
Definition ev_val (f : fs2) (e : ev) : val :=
  VL [VB (e_req e); VI (e_start e); VI (e_slept e); VB (e_key e);
      match e_name e with Some n => VOpt VS (fs2_get n f) | None => VNone end].
Fixpoint client_vals (s : cl) (os : list op) : list val :=
  match os with
  | [] => []
  | o :: r => let '(s1, es) := do_op s o in VL [VL (map (ev_val (c_fs s1)) es); op_result (c_fs s1) o es] :: client_vals s1 r
  end.
Definition run_C19_client (f0 : list (str * str))
    (os : list (N * Z * bool * option str * option str * list str * str * option str * bool * list (Z * Z * option str * bool))) : val :=
  let ops := map mk_op os in
  VL [VB (forallb op_okb ops); VL (client_vals (cl_init f0) ops)].
(* the file-name function alone *)
Definition run_C19_name (path id ext : str) : val := VL [VB true; VS (fname path id ext)].

(* histories of (key setting, call) on the limiter alone *)
Definition run_C19_fixed (cs : list (bool * (Z * Z * Z))) : val :=
  let calls := map (fun kc => (fst kc, mk_call (snd kc))) cs in
  let s := runF calls in
  VL [VB (forallb (fun kc => call_okb (snd kc)) calls); VL [VZs (rev (hist s)); VZs (rev (slept s))]].

(* one key setting throughout *)
Definition run_C19_rate (api_key : bool) (cs : list (Z * Z * Z)) : val :=
  let calls := map mk_call cs in
  let s := runF (map (pair api_key) calls) in
  VL [VB (forallb call_okb calls); VL [VZs (rev (hist s)); VZs (rev (slept s))]].
